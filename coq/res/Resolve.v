(** resolve.go: Schema.Resolve and its helpers (check, resolveURIs, resolveRefs,
    resolveRef with the Loader and the cache of loaded documents).
    Schemas are trees here; [checkStructure] on pointer graphs is in heap/Clone.v ([check]). *)
From Coq Require Import List NArith ZArith QArith Bool.
From JS Require Import Str Lit Json Res GoValue Schema Basic Pointer Env Uri.
Import ListNotations.
Open Scope list_scope.

(** Schema.all(): preorder, children in everyChild order *)
Fixpoint all_sub_fuel (fuel : nat) (p : list seg) (s : schema) : list (list seg * schema) :=
  match fuel with
  | O => []
  | S n => (p, s) :: flat_map (fun pc => all_sub_fuel n (p ++ fst pc) (snd pc)) (children s)
  end.
Definition all_sub (s : schema) : list (list seg * schema) := all_sub_fuel (size s) [] s.

Definition draft2020_uri : str := lit "https://json-schema.org/draft/2020-12/schema"%lit.
Definition draft7_uri : str := lit "http://json-schema.org/draft-07/schema#"%lit.
Definition draft7s_uri : str := lit "https://json-schema.org/draft-07/schema#"%lit.

(** detectDraft: true = draft-07 *)
Definition detectDraft7 (s : schema) : bool :=
  str_eqb (s_schema s) draft7_uri || str_eqb (s_schema s) draft7s_uri.

Section Resolve.
  (** regexp.Compile succeeds? (oracle) *)
  Variable re_ok : str -> bool.

  (** checkLocal: true = no error reported *)
  Definition checkLocal (s : schema) : bool :=
    basicChecks s &&
    negb (is_some (s_vocabulary s) && negb (str_eqb (s_schema s) draft2020_uri)) &&
    (if nonempty (s_pattern s) then re_ok (s_pattern s) else true) &&
    forallb (fun kv => re_ok (fst kv)) (match s_patternProperties s with Some m => m | None => [] end).

  Definition check (root : schema) : bool := forallb (fun ps => checkLocal (snd ps)) (all_sub root).

  (** per-document result of resolveURIs *)
  Record docinfo := mkDoc {
    di_root : schema;
    di_draft7 : bool;
    di_uris : list (str * list seg);                         (* rs.resolvedURIs *)
    di_base : list (list seg * list seg);                    (* info.base *)
    di_uri : list (list seg * uri);                          (* info.uri of resource roots *)
    di_anchors : list (list seg * (str * (list seg * bool))) (* (base, (name, (target, dynamic))) in registration order *)
  }.

  Fixpoint lookup_path {A} (p : list seg) (t : list (list seg * A)) : option A :=
    match t with
    | [] => None
    | (q, v) :: r => if path_eqb p q then Some v else lookup_path p r
    end.

  Definition anchors_of (di : docinfo) (base : list seg) : list (str * (list seg * bool)) :=
    map snd (filter (fun e => path_eqb (fst e) base) (di_anchors di)).

  (* setAnchor: the first registration of a name in a base wins; the error for a
     duplicate is dropped by every caller *)
  Definition setAnchor (di : docinfo) (base : list seg) (name : str) (p : list seg) (dyn : bool) : docinfo :=
    match name with
    | [] => di
    | _ =>
        if is_some (lookup name (anchors_of di base)) then di
        else mkDoc (di_root di) (di_draft7 di) (di_uris di) (di_base di) (di_uri di)
                   (di_anchors di ++ [(base, (name, (p, dyn)))])
    end.

  Definition trim_hash (s : str) : str := match s with 35%N :: r => r | _ => s end.

  Fixpoint ru_walk (fuel : nat) (di : docinfo) (p : list seg) (s : schema) (base : list seg) : res docinfo :=
    match fuel with
    | O => OutOfFuel
    | S n =>
        step <-
          (if nonempty (s_id s) && negb (di_draft7 di && nonempty (s_ref s)) then
             match parse_uri (s_id s) with
             | POk idURI =>
                 if negb (di_draft7 di) && nonempty (u_frag idURI) then Err
                 else if di_draft7 di && nonempty (u_frag idURI) then
                   Ok (setAnchor di base (trim_hash (s_id s)) p false, base)
                 else
                   match lookup_path base (di_uri di) with
                   | None => Panic
                   | Some bu =>
                       let u := resolve_reference bu idURI in
                       if negb (is_abs u) then Err
                       else Ok (mkDoc (di_root di) (di_draft7 di) ((uri_string u, p) :: di_uris di)
                                      (di_base di) ((p, u) :: di_uri di) (di_anchors di), p)
                   end
             | _ => Err
             end
           else Ok (di, base)) ;;
        let di1 := fst step in
        let base1 := snd step in
        let di2 := mkDoc (di_root di1) (di_draft7 di1) (di_uris di1) ((p, base1) :: di_base di1) (di_uri di1) (di_anchors di1) in
        let di3 := if di_draft7 di2 then di2
                   else setAnchor (setAnchor di2 base1 (s_anchor s) p false) base1 (s_dynamicAnchor s) p true in
        (fix kids (cs : list (list seg * schema)) (di : docinfo) : res docinfo :=
           match cs with
           | [] => Ok di
           | (q, c) :: r => di' <- ru_walk n di (p ++ q) c base1 ;; kids r di'
           end) (children s) di3
    end.

  Definition resolveURIs (root : schema) (draft7 : bool) (baseURI : uri) : res docinfo :=
    ru_walk (size root) (mkDoc root draft7 [(uri_string baseURI, [])] [] [([], baseURI)] []) [] root [].

  (** the Loader: URI string -> document, or an error (absent or None) *)
  Variable loader : option (list (str * option schema)).

  Record refinfo := mkRef { rf_ref : option loc; rf_dynref : option loc; rf_dynanchor : str }.

  Record rstate := mkR {
    r_docs : list docinfo;             (* documents whose URIs are resolved, by index *)
    r_cache : list (str * nat);        (* resolver.loaded *)
    r_refs : list (loc * refinfo);
    r_calls : list str                 (* Loader call log *)
  }.

  Definition set_ref (st : rstate) (l : loc) (f : refinfo -> refinfo) : rstate :=
    let cur := match lookup_loc l (r_refs st) with Some x => x | None => mkRef None None [] end in
    mkR (r_docs st) (r_cache st) ((l, f cur) :: r_refs st) (r_calls st).

  Definition call_loader (u : str) : option schema :=
    match loader with
    | None => None
    | Some tbl => match lookup u tbl with Some (Some s) => Some s | _ => None end
    end.

  Variable rootDraft7 : bool.

  (* resolver.resolveRef, given the recursive call that resolves a loaded document *)
  Definition resolveRef (rec : rstate -> schema -> uri -> res (rstate * nat)) (di : docinfo) (d : nat)
             (st : rstate) (p : list seg) (ref : str) : res (rstate * (loc * str)) :=
    match parse_uri ref with
    | POk refURI0 =>
        match lookup_path p (di_base di) with
        | None => Panic
        | Some base =>
            match lookup_path base (di_uri di) with
            | None => Panic
            | Some bu =>
                let refURI := resolve_reference bu refURI0 in
                let fragless := uri_string (drop_frag refURI) in
                tgt <-
                  (match lookup fragless (di_uris di) with
                   | Some q => Ok (st, (d, q))
                   | None =>
                       match lookup fragless (r_cache st) with
                       | Some d' => Ok (st, (d', []))
                       | None =>
                           let st' := mkR (r_docs st) (r_cache st) (r_refs st) (r_calls st ++ [fragless]) in
                           match call_loader fragless with
                           | None => Err
                           | Some ls =>
                               r <- rec st' ls (drop_frag refURI) ;;
                               Ok (fst r, (snd r, []))
                           end
                       end
                   end) ;;
                let st2 := fst tgt in
                let '(d', q) := snd tgt in
                match nth_error (r_docs st2) d' with
                | None => Panic
                | Some di' =>
                    let frag := u_frag refURI in
                    match frag with
                    | c :: _ =>
                        if negb (N.eqb c 47) then
                          match lookup frag (anchors_of di' q) with
                          | Some (t, dyn) => Ok (st2, ((d', t), if dyn then frag else []))
                          | None => Err
                          end
                        else
                          match subschema_at (di_root di') q with
                          | None => Panic
                          | Some rs =>
                              r <- dereferenceJSONPointer rs frag ;;
                              Ok (st2, ((d', q ++ fst r), []))
                          end
                    | [] => Ok (st2, ((d', q), []))
                    end
                end
            end
        end
    | _ => Err
    end.

  (* resolver.resolveRefs over the subschemas of one document *)
  Definition resolveRefs (rec : rstate -> schema -> uri -> res (rstate * nat)) (di : docinfo) (d : nat)
    : list (list seg * schema) -> rstate -> res rstate :=
    fix refs (nodes : list (list seg * schema)) (st : rstate) : res rstate :=
      match nodes with
      | [] => Ok st
      | (p, c) :: r =>
          st1 <-
            (if nonempty (s_ref c) then
               x <- resolveRef rec di d st p (s_ref c) ;;
               Ok (set_ref (fst x) (d, p) (fun ri => mkRef (Some (fst (snd x))) (rf_dynref ri) (rf_dynanchor ri)))
             else Ok st) ;;
          st2 <-
            (if nonempty (s_dynamicRef c) then
               x <- resolveRef rec di d st1 p (s_dynamicRef c) ;;
               Ok (set_ref (fst x) (d, p) (fun ri => mkRef (rf_ref ri) (Some (fst (snd x))) (snd (snd x))))
             else Ok st1) ;;
          refs r st2
      end.

  (* resolver.resolve: [fuel] bounds the depth of nested document loads *)
  Fixpoint resolve_doc (fuel : nat) (st : rstate) (s : schema) (baseURI : uri) : res (rstate * nat) :=
    match fuel with
    | O => OutOfFuel
    | S n =>
        if nonempty (u_frag baseURI) then Err else
        let draft7 := if nonempty (s_schema s) then detectDraft7 s else rootDraft7 in
        if negb (check s) then Err else
        di <- resolveURIs s draft7 baseURI ;;
        let d := length (r_docs st) in
        let rootURI := match lookup_path [] (di_uri di) with Some u => uri_string u | None => [] end in
        let st1 := mkR (r_docs st ++ [di]) ((rootURI, d) :: (uri_string baseURI, d) :: r_cache st) (r_refs st) (r_calls st) in
        st' <- resolveRefs (resolve_doc n) di d (all_sub s) st1 ;;
        Ok (st', d)
    end.

  (** assemble the Resolved the evaluator reads *)
  Definition build_env (root : schema) (st : rstate) : env :=
    let nodes :=
      flat_map (fun idi => map (fun ps => ((fst idi, fst ps), snd ps)) (all_sub (di_root (snd idi))))
               (combine (seq 0 (length (r_docs st))) (r_docs st)) in
    let info_of (l : loc) : rinfo :=
      match nth_error (r_docs st) (fst l) with
      | None => mkRinfo l [] None None []
      | Some di =>
          let base := match lookup_path (snd l) (di_base di) with Some b => b | None => [] end in
          let anchors := map (fun e => (fst e, ((fst l, fst (snd e)), snd (snd e)))) (anchors_of di (snd l)) in
          let rf := match lookup_loc l (r_refs st) with Some x => x | None => mkRef None None [] end in
          mkRinfo (fst l, base) anchors (rf_ref rf) (rf_dynref rf) (rf_dynanchor rf)
      end in
    mkEnv rootDraft7 (s_schema root) nodes (map (fun ls => (fst ls, info_of (fst ls))) nodes).
End Resolve.

(* the base URI in the form that resolving a reference against it gives (no dot segments) *)
Definition norm_base (baseURI : str) (b : uri) : uri :=
  match baseURI with [] => b | _ => resolve_reference b empty_uri end.

(** Schema.Resolve (without ValidateDefaults, which needs the evaluator: dfl/Defaults.v) *)
Definition Resolve (re_ok : str -> bool) (fuel : nat) (root : schema) (baseURI : str)
           (loader : option (list (str * option schema))) : res (env * list str) :=
  match (match baseURI with [] => POk empty_uri | _ => parse_uri baseURI end) with
  | POk base0 =>
      r <- resolve_doc re_ok loader (detectDraft7 root) fuel (mkR [] [] [] []) root (norm_base baseURI base0) ;;
      Ok (build_env (detectDraft7 root) root (fst r), r_calls (fst r))
  | _ => Err
  end.
