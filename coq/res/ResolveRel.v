(** C14: Schema.Resolve does not depend on the order in which the maps of the schema tree
    (and of the documents the Loader returns) hold their entries.  Two trees related by [srel]
    resolve to the same outcome, the same Loader calls and environments related by [erel];
    with val/SchemaPerm.v the verdicts of Validate agree as well. *)
From Coq Require Import List NArith ZArith QArith Bool Permutation Lia.
From JS Require Import Str StrFacts Lit Json Res GoValue Schema SchemaRel Basic Pointer Env Uri ChildFacts Resolve SchemaPerm.
Import ListNotations.
Open Scope list_scope.

(** * lists of children: same paths, related schemas *)
Definition prel (a b : list seg * schema) : Prop := fst a = fst b /\ srel (snd a) (snd b).
Definition crel := Forall2 prel.
Definition krel {A} (R : A -> A -> Prop) (a b : str * A) : Prop := fst a = fst b /\ R (snd a) (snd b).

Lemma insert_krel {A} (R : A -> A -> Prop) a b l l' :
  krel R a b -> Forall2 (krel R) l l' ->
  Forall2 (krel R) (insert (fun x y => str_leb (fst x) (fst y)) a l) (insert (fun x y => str_leb (fst x) (fst y)) b l').
Proof.
  intros Hab H. induction H as [|x y r r' Hxy Hr IH]; cbn [insert].
  - constructor; [exact Hab|constructor].
  - destruct Hab as [Hk Hv], Hxy as [Hk' Hv']. rewrite <- Hk, <- Hk'.
    destruct (str_leb (fst a) (fst x)).
    + constructor; [split; assumption|]. constructor; [split; assumption|assumption].
    + constructor; [split; assumption|]. apply IH.
Qed.

Lemma sort_by_key_krel {A} (R : A -> A -> Prop) m m' :
  Forall2 (krel R) m m' -> Forall2 (krel R) (sort_by_key m) (sort_by_key m').
Proof.
  unfold sort_by_key. induction 1 as [|a b r r' Hab Hr IH]; cbn [isort]; [constructor|].
  now apply insert_krel.
Qed.

Lemma mrel_sorted {A} (R : A -> A -> Prop) m m' :
  mrel R m m' -> Forall2 (krel R) (sort_by_key m) (sort_by_key m').
Proof.
  intros (Hnd & m2 & HP & HF). rewrite (sort_by_key_perm_eq m m2 Hnd HP). now apply sort_by_key_krel.
Qed.

Lemma map_children_mrel name m m' : mrel srel m m' -> crel (map_children name m) (map_children name m').
Proof.
  intros H. apply mrel_sorted in H. unfold map_children.
  induction H as [|a b r r' [Hk Hv] Hr IH]; cbn [map]; constructor; [|exact IH].
  split; cbn [fst snd]; [now rewrite Hk|exact Hv].
Qed.

Lemma idx_children_rel name l l' : Forall2 srel l l' -> forall i, crel (idx_children name i l) (idx_children name i l').
Proof.
  induction 1 as [|a b r r' Hab Hr IH]; intros i; cbn [idx_children]; constructor; [|apply IH].
  split; [reflexivity|exact Hab].
Qed.

Lemma crel_sch p o o' : optrel srel o o' ->
  crel (match o with Some c => [(p, c)] | None => [] end) (match o' with Some c => [(p, c)] | None => [] end).
Proof. intros [|a b H]; [constructor|]. constructor; [split; [reflexivity|exact H]|constructor]. Qed.
Lemma crel_schs name o o' : optrel (Forall2 srel) o o' ->
  crel (match o with Some l => idx_children name 0%nat l | None => [] end) (match o' with Some l => idx_children name 0%nat l | None => [] end).
Proof. intros [|a b H]; [constructor|]. now apply idx_children_rel. Qed.
Lemma crel_schm name o o' : optrel (mrel srel) o o' ->
  crel (match o with Some m => map_children name m | None => [] end) (match o' with Some m => map_children name m | None => [] end).
Proof. intros [|a b H]; [constructor|]. now apply map_children_mrel. Qed.

Lemma children_srel s s' : srel s s' -> crel (children s) (children s').
Proof.
  intros H. unfold children, crel.
  repeat (apply Forall2_app;
          [first [apply crel_sch | apply crel_schs | apply crel_schm];
           auto using srel_defs, srel_additionalItems, srel_additionalProperties, srel_allOf, srel_anyOf, srel_contains,
             srel_contentSchema, srel_definitions, srel_dependencySchemas, srel_dependentSchemas, srel_else, srel_if,
             srel_items, srel_itemsArray, srel_not, srel_oneOf, srel_patternProperties, srel_prefixItems, srel_properties,
             srel_propertyNames, srel_then, srel_unevaluatedItems, srel_unevaluatedProperties|]).
  apply crel_sch. now apply srel_unevaluatedProperties.
Qed.

(** * the size of a schema in terms of its children; related schemas have the same size *)
Definition csum (l : list (list seg * schema)) : nat := fold_right (fun x a => (size (snd x) + a)%nat) 0%nat l.
Lemma csum_app a b : csum (a ++ b) = (csum a + csum b)%nat.
Proof. induction a as [|x r IH]; cbn [csum fold_right app]; [reflexivity|]. fold (csum (r ++ b)). fold (csum r). rewrite IH. lia. Qed.
Lemma csum_sch p o : csum (match o with Some c => [(p, c)] | None => [] end) = osize o.
Proof. destruct o; cbn; lia. Qed.
Lemma csum_idx name l : forall i, csum (idx_children name i l) = sizes_l l.
Proof. induction l as [|c r IH]; intros i; cbn [idx_children csum fold_right sizes_l snd]; [reflexivity|]. fold (csum (idx_children name (S i) r)). now rewrite IH. Qed.
Lemma csum_schs name o : csum (match o with Some l => idx_children name 0%nat l | None => [] end) = match o with Some l => sizes_l l | None => 0%nat end.
Proof. destruct o; [apply csum_idx|reflexivity]. Qed.
Lemma sizes_m_perm m m' : Permutation m m' -> sizes_m m = sizes_m m'.
Proof.
  induction 1 as [|[k c] r r' HP IH|[k c] [k' c'] r|a b c H1 IH1 H2 IH2]; cbn [sizes_m]; try lia.
Qed.
Lemma csum_map name m : csum (map (fun kc : str * schema => ([SKey name; SKey (fst kc)], snd kc)) m) = sizes_m m.
Proof. induction m as [|[k c] r IH]; cbn [map csum fold_right sizes_m snd]; [reflexivity|]. fold (csum (map (fun kc : str * schema => ([SKey name; SKey (fst kc)], snd kc)) r)). now rewrite IH. Qed.
Lemma csum_schm name o : csum (match o with Some m => map_children name m | None => [] end) = match o with Some m => sizes_m m | None => 0%nat end.
Proof.
  destruct o as [m|]; [|reflexivity]. unfold map_children. rewrite csum_map.
  symmetry. apply sizes_m_perm, sort_by_key_perm.
Qed.

Lemma size_children s : size s = S (csum (children s)).
Proof.
  rewrite (size_unfold s). unfold children. rewrite !csum_app, !csum_sch, !csum_schs, !csum_schm. lia.
Qed.

Lemma csum_In l : forall p c, In (p, c) l -> (size c <= csum l)%nat.
Proof.
  induction l as [|x r IH]; intros p c H; [contradiction|]. cbn [csum fold_right]. fold (csum r).
  destruct H as [->|H]; [cbn; lia|]. apply IH in H. lia.
Qed.

Lemma size_srel : forall n s s', (size s <= n)%nat -> srel s s' -> size s = size s'.
Proof.
  induction n as [|n IH]; intros s s' Hn H.
  - rewrite (size_children s) in Hn. lia.
  - rewrite (size_children s), (size_children s'). f_equal.
    assert (Hc : forall p c, In (p, c) (children s) -> (size c <= n)%nat).
    { intros p c Hin. apply children_size in Hin. lia. }
    pose proof (children_srel s s' H) as HF. revert Hc.
    induction HF as [|a b r r' [_ Hab] Hr IHr]; intros Hc; [reflexivity|].
    cbn [csum fold_right]. fold (csum r). fold (csum r'). f_equal.
    + destruct a as [p c]. apply IH; [apply (Hc p c); now left|exact Hab].
    + apply IHr. intros p c Hin. apply (Hc p c). now right.
Qed.

(** * Schema.all() *)
Lemma all_sub_fuel_srel : forall n p s s', srel s s' -> crel (all_sub_fuel n p s) (all_sub_fuel n p s').
Proof.
  induction n as [|n IH]; intros p s s' H; cbn [all_sub_fuel]; [constructor|].
  constructor; [split; [reflexivity|exact H]|].
  pose proof (children_srel s s' H) as HF.
  induction HF as [|a b r r' [Hp Hab] Hr IHr]; cbn [flat_map]; [constructor|].
  apply Forall2_app; [|exact IHr]. rewrite Hp. now apply IH.
Qed.
Lemma all_sub_srel s s' : srel s s' -> crel (all_sub s) (all_sub s').
Proof. intros H. unfold all_sub. rewrite <- (size_srel (size s) s s' (le_n _) H). now apply all_sub_fuel_srel. Qed.

(** * field access by JSON name, locations, JSON pointers *)
Inductive pvrel : pval -> pval -> Prop :=
| PV_sch a b : srel a b -> pvrel (PSchema a) (PSchema b)
| PV_nil : pvrel PNilSchema PNilSchema
| PV_list a b : Forall2 srel a b -> pvrel (PList a) (PList b)
| PV_map a b : (a = [] /\ b = []) \/ mrel srel a b -> pvrel (PMap a) (PMap b)
| PV_other : pvrel POther POther.

Lemma pvrel_opt_schema o o' : optrel srel o o' -> pvrel (opt_schema o) (opt_schema o').
Proof. intros [|a b H]; cbn; now constructor. Qed.
Lemma pvrel_opt_schemas o o' : optrel (Forall2 srel) o o' -> pvrel (opt_schemas o) (opt_schemas o').
Proof. intros [|a b H]; cbn; constructor; [constructor|exact H]. Qed.
Lemma pvrel_opt_schemam o o' : optrel (mrel srel) o o' -> pvrel (opt_schemam o) (opt_schemam o').
Proof. intros [|a b H]; cbn; constructor; [left; split; reflexivity|right; exact H]. Qed.

Lemma lookup_field_srel name s s' : srel s s' -> optrel pvrel (lookup_field name s) (lookup_field name s').
Proof.
  intros H. unfold lookup_field.
  repeat match goal with
         | |- context [if str_eqb name ?k then _ else _] => destruct (str_eqb name k)
         end;
    try (constructor; constructor; fail);
    try (constructor;
         first [apply pvrel_opt_schema | apply pvrel_opt_schemas | apply pvrel_opt_schemam];
         auto using srel_defs, srel_additionalItems, srel_additionalProperties, srel_allOf, srel_anyOf, srel_contains,
           srel_contentSchema, srel_definitions, srel_dependencySchemas, srel_dependentSchemas, srel_else, srel_if,
           srel_items, srel_itemsArray, srel_not, srel_oneOf, srel_patternProperties, srel_prefixItems, srel_properties,
           srel_propertyNames, srel_then, srel_unevaluatedItems, srel_unevaluatedProperties; fail).
  (* "items": the schema form or the array form *)
  constructor. destruct (srel_items s s' H) as [|a b Hab]; [|now constructor].
  apply pvrel_opt_schemas. now apply srel_itemsArray.
Qed.

(** * results related outcome by outcome *)
Definition rrel {A} (R : A -> A -> Prop) (a b : res A) : Prop :=
  match a, b with
  | Ok x, Ok y => R x y
  | Err, Err => True
  | Panic, Panic => True
  | OutOfFuel, OutOfFuel => True
  | _, _ => False
  end.
Lemma rrel_bind {A B} (R : A -> A -> Prop) (Q : B -> B -> Prop) a a' (f f' : A -> res B) :
  rrel R a a' -> (forall x y, R x y -> rrel Q (f x) (f' y)) -> rrel Q (bind a f) (bind a' f').
Proof. intros H Hf. destruct a, a'; cbn in *; try contradiction; auto. Qed.

Lemma mrel_lookup_opt {A} (R : A -> A -> Prop) m m' k : mrel R m m' -> optrel R (lookup k m) (lookup k m').
Proof.
  intros H. pose proof (mrel_lookup R m m' H k) as HL.
  destruct (lookup k m), (lookup k m'); try contradiction; now constructor.
Qed.
Lemma Forall2_nth_error {A} (R : A -> A -> Prop) l l' : Forall2 R l l' -> forall i, optrel R (nth_error l i) (nth_error l' i).
Proof.
  induction 1 as [|a b r r' Hab Hr IH]; intros [|i]; cbn [nth_error]; try constructor; [exact Hab|apply IH].
Qed.
Lemma Forall2_length {A} (R : A -> A -> Prop) l l' : Forall2 R l l' -> length l = length l'.
Proof. induction 1; cbn; auto. Qed.

Lemma deref_walk_srel segs : forall v v' path, pvrel v v' -> rrel prel (deref_walk v segs path) (deref_walk v' segs path).
Proof.
  induction segs as [|sg r IH]; intros v v' path Hv; cbn [deref_walk].
  - destruct Hv; cbn; auto. split; [reflexivity|assumption].
  - destruct Hv as [a b Hab| |a b Hab|a b Hab|]; cbn [rrel]; auto.
    + destruct (lookup_field_srel sg a b Hab) as [|x y Hxy]; cbn [rrel]; auto.
    + rewrite <- (Forall2_length _ _ _ Hab). destruct (index_below sg (length a)) as [n|]; cbn [rrel]; auto.
      destruct (Forall2_nth_error _ _ _ Hab n) as [|x y Hxy]; cbn [rrel]; auto. apply IH. now constructor.
    + destruct Hab as [[-> ->]|Hm]; [cbn; exact I|].
      destruct (mrel_lookup_opt _ _ _ sg Hm) as [|x y Hxy]; cbn [rrel]; auto. apply IH. now constructor.
Qed.

Lemma dereferenceJSONPointer_srel s s' ptr : srel s s' ->
  rrel prel (dereferenceJSONPointer s ptr) (dereferenceJSONPointer s' ptr).
Proof.
  intros H. unfold dereferenceJSONPointer. destruct (parseJSONPointer ptr); cbn [bind rrel]; auto.
  apply deref_walk_srel. now constructor.
Qed.

Lemma subschema_at_srel : forall n p s s', (length p <= n)%nat -> srel s s' -> optrel srel (subschema_at s p) (subschema_at s' p).
Proof.
  induction n as [|n IH]; intros p s s' Hn H.
  - destruct p; [|cbn in Hn; lia]. cbn. now constructor.
  - destruct p as [|[f|i] r]; cbn [subschema_at]; [now constructor| |constructor].
    cbn [length] in Hn.
    destruct (lookup_field_srel f s s' H) as [|x y Hxy]; [constructor|].
    destruct Hxy as [a b Hab| |a b Hab|a b Hab|]; try constructor.
    + apply IH; [lia|exact Hab].
    + destruct r as [|[k|i] r']; try constructor.
      destruct (Forall2_nth_error _ _ _ Hab i) as [|x y Hxy]; [constructor|]. apply IH; [cbn [length] in Hn; lia|exact Hxy].
    + destruct r as [|[k|i] r']; try constructor.
      destruct Hab as [[-> ->]|Hm]; [cbn; constructor|].
      destruct (mrel_lookup_opt _ _ _ k Hm) as [|x y Hxy]; [constructor|]. apply IH; [cbn [length] in Hn; lia|exact Hxy].
Qed.

(** * check *)
Lemma is_some_optrel {A} (R : A -> A -> Prop) o o' : optrel R o o' -> is_some o = is_some o'.
Proof. now intros []. Qed.

Lemma forallb_keys_mrel {A} (R : A -> A -> Prop) (f : str -> bool) m m' : mrel R m m' ->
  forallb (fun kv : str * A => f (fst kv)) m = forallb (fun kv : str * A => f (fst kv)) m'.
Proof.
  intros (_ & m2 & HP & HF). rewrite (forallb_perm _ _ _ HP). clear HP.
  induction HF as [|a b r r' [Hk _] _ IH]; cbn [forallb]; [reflexivity|]. now rewrite Hk, IH.
Qed.

Lemma forallb_ext' {A} (f g : A -> bool) l : (forall x, f x = g x) -> forallb f l = forallb g l.
Proof. intros E. induction l as [|x r IH]; cbn [forallb]; [reflexivity|]. now rewrite E, IH. Qed.

Lemma basicChecks_srel s s' : srel s s' -> basicChecks s = basicChecks s'.
Proof.
  intros H. unfold basicChecks.
  rewrite (srel_type _ _ H), (srel_types _ _ H), (srel_propertyOrder _ _ H),
    (is_some_optrel _ _ _ (srel_defs _ _ H)), (is_some_optrel _ _ _ (srel_definitions _ _ H)),
    (is_some_optrel _ _ _ (srel_items _ _ H)), (is_some_optrel _ _ _ (srel_itemsArray _ _ H)).
  f_equal.
  assert (E : forall k, is_some (lookup k (match s_dependencyStrings s with Some m => m | None => [] end)) =
                        is_some (lookup k (match s_dependencyStrings s' with Some m => m | None => [] end))).
  { intros k. destruct (srel_dependencyStrings _ _ H) as [|m m' Hm]; [reflexivity|].
    apply (is_some_optrel eq). now apply mrel_lookup_opt. }
  destruct (srel_dependencySchemas _ _ H) as [|m m' Hm].
  - reflexivity.
  - rewrite (forallb_keys_mrel srel (fun k => negb (is_some (lookup k (match s_dependencyStrings s with Some m => m | None => [] end)))) m m' Hm).
    apply forallb_ext'. intros kv. now rewrite E.
Qed.

Section CheckRel.
  Variable re_ok : str -> bool.
  Lemma checkLocal_srel s s' : srel s s' -> checkLocal re_ok s = checkLocal re_ok s'.
  Proof.
    intros H. unfold checkLocal.
    rewrite (basicChecks_srel _ _ H), (srel_vocabulary _ _ H), (srel_schema _ _ H), (srel_pattern _ _ H).
    f_equal. destruct (srel_patternProperties _ _ H) as [|m m' Hm]; [reflexivity|].
    apply (forallb_keys_mrel srel re_ok m m' Hm).
  Qed.
  Lemma check_srel s s' : srel s s' -> check re_ok s = check re_ok s'.
  Proof.
    intros H. unfold check. pose proof (all_sub_srel s s' H) as HF.
    induction HF as [|a b r r' [_ Hab] _ IH]; cbn [forallb]; [reflexivity|].
    now rewrite (checkLocal_srel _ _ Hab), IH.
  Qed.
End CheckRel.

(** * resolveURIs: the tables do not depend on the order of map entries *)
Definition drel (d d' : docinfo) : Prop :=
  srel (di_root d) (di_root d') /\ di_draft7 d = di_draft7 d' /\ di_uris d = di_uris d' /\
  di_base d = di_base d' /\ di_uri d = di_uri d' /\ di_anchors d = di_anchors d'.

Lemma drel_mk r r' d7 u b i a : srel r r' -> drel (mkDoc r d7 u b i a) (mkDoc r' d7 u b i a).
Proof. intros H. unfold drel. cbn. auto 10. Qed.

Lemma anchors_of_drel d d' base : drel d d' -> anchors_of d base = anchors_of d' base.
Proof. intros (_ & _ & _ & _ & _ & Ha). unfold anchors_of. now rewrite Ha. Qed.

Lemma setAnchor_drel d d' base name p dyn : drel d d' -> drel (setAnchor d base name p dyn) (setAnchor d' base name p dyn).
Proof.
  intros H. unfold setAnchor. destruct name as [|c name]; [exact H|].
  rewrite <- (anchors_of_drel d d' base H). destruct (is_some _); [exact H|].
  destruct H as (Hr & H7 & Hu & Hb & Hi & Ha). rewrite <- H7, <- Hu, <- Hb, <- Hi, <- Ha. now apply drel_mk.
Qed.

Definition steprel (x y : docinfo * list seg) : Prop := drel (fst x) (fst y) /\ snd x = snd y.

Lemma ru_walk_srel : forall n di di' p s s' base, drel di di' -> srel s s' ->
  rrel drel (ru_walk n di p s base) (ru_walk n di' p s' base).
Proof.
  induction n as [|n IH]; intros di di' p s s' base Hd H; [exact I|].
  cbn [ru_walk].
  rewrite <- (srel_id _ _ H), <- (srel_ref _ _ H), <- (srel_anchor _ _ H), <- (srel_dynamicAnchor _ _ H).
  eapply rrel_bind with (R := steprel).
  - pose proof Hd as (Hr & H7 & Hu & Hb & Hi & Ha). rewrite <- H7, <- Hi.
    destruct (nonempty (s_id s) && negb (di_draft7 di && nonempty (s_ref s))); [|split; [exact Hd|reflexivity]].
    destruct (parse_uri (s_id s)) as [idURI| |]; cbn [rrel]; auto.
    destruct (negb (di_draft7 di) && nonempty (u_frag idURI)); cbn [rrel]; auto.
    destruct (di_draft7 di && nonempty (u_frag idURI)).
    + split; [now apply setAnchor_drel|reflexivity].
    + destruct (lookup_path base (di_uri di)) as [bu|]; cbn [rrel]; auto.
      destruct (negb (is_abs (resolve_reference bu idURI))); cbn [rrel]; auto.
      split; [|reflexivity]. cbn [fst]. rewrite <- Hu, <- Hb, <- Ha. now apply drel_mk.
  - intros [d1 b1] [d1' b1'] [Hd1 Hb1]. cbn [fst snd] in *. subst b1'.
    match goal with |- rrel drel (?K (children s) ?A) (?K' (children s') ?B) =>
      assert (Hinit : drel A B); [|generalize dependent A; generalize dependent B] end.
    { pose proof Hd1 as (Hr & H7 & Hu & Hb & Hi & Ha). cbn [di_draft7]. rewrite <- H7.
      assert (Hd2 : drel (mkDoc (di_root d1) (di_draft7 d1) (di_uris d1) ((p, b1) :: di_base d1) (di_uri d1) (di_anchors d1))
                         (mkDoc (di_root d1') (di_draft7 d1) (di_uris d1') ((p, b1) :: di_base d1') (di_uri d1') (di_anchors d1')))
        by (rewrite <- Hu, <- Hb, <- Hi, <- Ha; now apply drel_mk).
      destruct (di_draft7 d1); [exact Hd2|]. now apply setAnchor_drel, setAnchor_drel. }
    pose proof (children_srel s s' H) as HF.
    induction HF as [|[q c] [q' c'] r r' [Hq Hc] _ IHr]; intros B A HAB; [exact HAB|].
    cbn [fst snd] in Hq, Hc. subst q'.
    eapply rrel_bind; [apply IH; [exact HAB|exact Hc]|].
    intros x y Hxy. now apply IHr.
Qed.

Lemma resolveURIs_srel s s' d7 b : srel s s' -> rrel drel (resolveURIs s d7 b) (resolveURIs s' d7 b).
Proof.
  intros H. unfold resolveURIs. rewrite <- (size_srel (size s) s s' (le_n _) H).
  apply ru_walk_srel; [|exact H]. now apply drel_mk.
Qed.

(** * resolveRefs and resolve: related resolver states *)
Definition strel (st st' : rstate) : Prop :=
  Forall2 drel (r_docs st) (r_docs st') /\ r_cache st = r_cache st' /\ r_refs st = r_refs st' /\ r_calls st = r_calls st'.
Definition lrel (l l' : option (list (str * option schema))) : Prop :=
  optrel (Forall2 (fun a b : str * option schema => fst a = fst b /\ optrel srel (snd a) (snd b))) l l'.
Definition outrel {B} (x y : rstate * B) : Prop := strel (fst x) (fst y) /\ snd x = snd y.

Lemma strel_mk d d' c r k : Forall2 drel d d' -> strel (mkR d c r k) (mkR d' c r k).
Proof. intros H. unfold strel. cbn. auto. Qed.

Lemma set_ref_strel st st' l f : strel st st' -> strel (set_ref st l f) (set_ref st' l f).
Proof.
  intros (Hd & Hc & Hr & Hk). unfold set_ref. rewrite <- Hc, <- Hr, <- Hk. now apply strel_mk.
Qed.

Lemma call_loader_lrel l l' u : lrel l l' -> optrel srel (call_loader l u) (call_loader l' u).
Proof.
  intros [|t t' Ht]; unfold call_loader; [constructor|].
  induction Ht as [|[k o] [k' o'] r r' [Hk Ho] _ IH]; cbn [lookup]; [constructor|].
  cbn [fst snd] in Hk, Ho. subst k'. destruct (str_eqb u k); [|exact IH].
  destruct Ho as [|a b Hab]; now constructor.
Qed.

Section RefRel.
  Variables loader loader' : option (list (str * option schema)).
  Hypothesis Hl : lrel loader loader'.
  Variables rec rec' : rstate -> schema -> uri -> res (rstate * nat).
  Hypothesis Hrec : forall st st' s s' u, strel st st' -> srel s s' -> rrel outrel (rec st s u) (rec' st' s' u).

  Lemma resolveRef_rel di di' d st st' p ref : drel di di' -> strel st st' ->
    rrel outrel (resolveRef loader rec di d st p ref) (resolveRef loader' rec' di' d st' p ref).
  Proof.
    intros Hd Hs. unfold resolveRef.
    destruct (parse_uri ref) as [refURI0| |]; cbn [rrel]; auto.
    pose proof Hd as (Hr & H7 & Hu & Hb & Hi & Ha). rewrite <- Hb, <- Hi, <- Hu.
    destruct (lookup_path p (di_base di)) as [base|]; cbn [rrel]; auto.
    destruct (lookup_path base (di_uri di)) as [bu|]; cbn [rrel]; auto.
    set (refURI := resolve_reference bu refURI0).
    set (fragless := uri_string (drop_frag refURI)).
    eapply rrel_bind with (R := @outrel (nat * list seg)).
    - destruct (lookup fragless (di_uris di)) as [q|]; [split; [exact Hs|reflexivity]|].
      pose proof Hs as (Hsd & Hsc & Hsr & Hsk). rewrite <- Hsc, <- Hsr, <- Hsk.
      destruct (lookup fragless (r_cache st)) as [d'|]; [split; [exact Hs|reflexivity]|].
      destruct (call_loader_lrel _ _ fragless Hl) as [|ls ls' Hls]; cbn [rrel]; auto.
      eapply rrel_bind with (R := @outrel nat).
      + apply Hrec; [now apply strel_mk|exact Hls].
      + intros x y [Hxy Hn]. split; cbn [fst snd]; [exact Hxy|now rewrite Hn].
    - intros [st2 [d' q]] [st2' [d'' q']] [Hst2 Hdq]. cbn [fst snd] in Hst2, Hdq. injection Hdq as <- <-.
      cbn [fst snd].
      destruct (Forall2_nth_error _ _ _ (proj1 Hst2) d') as [|dd dd' Hdd]; cbn [rrel]; auto.
      destruct (u_frag refURI) as [|c fr]; [split; [exact Hst2|reflexivity]|].
      destruct (negb (N.eqb c 47)).
      + rewrite <- (anchors_of_drel dd dd' q Hdd).
        destruct (lookup (c :: fr) (anchors_of dd q)) as [[t dyn]|]; cbn [rrel]; auto.
        split; [exact Hst2|reflexivity].
      + destruct (subschema_at_srel (length q) q _ _ (le_n _) (proj1 Hdd)) as [|rs rs' Hrs]; cbn [rrel]; auto.
        eapply rrel_bind; [apply dereferenceJSONPointer_srel; exact Hrs|].
        intros [pp cc] [pp' cc'] [Hpp _]. cbn [fst] in Hpp. subst pp'. split; [exact Hst2|reflexivity].
  Qed.

  Lemma resolveRefs_rel di di' d : drel di di' -> forall nodes nodes', crel nodes nodes' -> forall st st', strel st st' ->
    rrel strel (resolveRefs loader rec di d nodes st) (resolveRefs loader' rec' di' d nodes' st').
  Proof.
    intros Hd nodes nodes' HF. induction HF as [|[p c] [p' c'] r r' [Hp Hc] _ IH]; intros st st' Hs; cbn [resolveRefs]; [exact Hs|].
    cbn [fst snd] in Hp, Hc. subst p'.
    rewrite <- (srel_ref _ _ Hc), <- (srel_dynamicRef _ _ Hc).
    eapply rrel_bind with (R := strel).
    - destruct (nonempty (s_ref c)); [|exact Hs].
      eapply rrel_bind; [apply resolveRef_rel; [exact Hd|exact Hs]|].
      intros x y [Hxy Hsnd]. cbn [rrel]. rewrite <- Hsnd. now apply set_ref_strel.
    - intros st1 st1' Hs1.
      eapply rrel_bind with (R := strel).
      + destruct (nonempty (s_dynamicRef c)); [|exact Hs1].
        eapply rrel_bind; [apply resolveRef_rel; [exact Hd|exact Hs1]|].
        intros x y [Hxy Hsnd]. cbn [rrel]. rewrite <- Hsnd. now apply set_ref_strel.
      + intros st2 st2' Hs2. now apply IH.
  Qed.
End RefRel.

Section DocRel.
  Variable re_ok : str -> bool.
  Variables loader loader' : option (list (str * option schema)).
  Hypothesis Hl : lrel loader loader'.
  Variable rootDraft7 : bool.

  Lemma resolve_doc_rel : forall n st st' s s' u, strel st st' -> srel s s' ->
    rrel outrel (resolve_doc re_ok loader rootDraft7 n st s u) (resolve_doc re_ok loader' rootDraft7 n st' s' u).
  Proof.
    induction n as [|n IH]; intros st st' s s' u Hs H; [exact I|].
    cbn [resolve_doc].
    destruct (nonempty (u_frag u)); [exact I|].
    unfold detectDraft7. rewrite <- (srel_schema _ _ H), <- (check_srel re_ok _ _ H).
    destruct (negb (check re_ok s)); [exact I|].
    eapply rrel_bind; [apply resolveURIs_srel; exact H|].
    intros di di' Hd.
    pose proof Hs as (Hsd & Hsc & Hsr & Hsk). pose proof Hd as (Hr & H7 & Hu & Hb & Hi & Ha).
    rewrite <- (Forall2_length _ _ _ Hsd), <- Hi, <- Hsc, <- Hsr, <- Hsk.
    eapply rrel_bind with (R := strel).
    - apply resolveRefs_rel with (rec := resolve_doc re_ok loader rootDraft7 n) (rec' := resolve_doc re_ok loader' rootDraft7 n).
      + exact Hl.
      + intros; now apply IH.
      + exact Hd.
      + now apply all_sub_srel.
      + apply strel_mk. apply Forall2_app; [exact Hsd|]. constructor; [exact Hd|constructor].
    - intros x y Hxy. split; [exact Hxy|reflexivity].
  Qed.
End DocRel.

(** * the Resolved *)
Definition nrel (a b : loc * schema) : Prop := fst a = fst b /\ srel (snd a) (snd b).

Lemma lookup_loc_nrel l : forall n n', Forall2 nrel n n' -> optrel srel (lookup_loc l n) (lookup_loc l n').
Proof.
  induction 1 as [|[k c] [k' c'] r r' [Hk Hc] _ IH]; cbn [lookup_loc]; [constructor|].
  cbn [fst snd] in Hk, Hc. subst k'. destruct (loc_eqb l k); [now constructor|exact IH].
Qed.

Lemma nodes_rel : forall docs docs', Forall2 drel docs docs' -> forall k,
  Forall2 nrel
    (flat_map (fun idi : nat * docinfo => map (fun ps : list seg * schema => ((fst idi, fst ps), snd ps)) (all_sub (di_root (snd idi))))
              (combine (seq k (length docs)) docs))
    (flat_map (fun idi : nat * docinfo => map (fun ps : list seg * schema => ((fst idi, fst ps), snd ps)) (all_sub (di_root (snd idi))))
              (combine (seq k (length docs')) docs')).
Proof.
  induction 1 as [|d d' r r' Hd _ IH]; intros k; cbn [length seq combine flat_map]; [constructor|].
  apply Forall2_app; [|apply IH]. cbn [fst snd].
  pose proof (all_sub_srel _ _ (proj1 Hd)) as HF.
  induction HF as [|[p c] [p' c'] l l' [Hp Hc] _ IHl]; cbn [map]; constructor; [|exact IHl].
  cbn [fst snd] in *. subst p'. split; [reflexivity|exact Hc].
Qed.

Theorem build_env_rel d7 root root' st st' : srel root root' -> strel st st' ->
  erel (build_env d7 root st) (build_env d7 root' st').
Proof.
  intros H (Hd & Hc & Hr & Hk). unfold build_env, erel. cbn [e_version e_draft7].
  pose proof (nodes_rel _ _ Hd 0%nat) as HN.
  split; [exact (srel_schema _ _ H)|]. split; [reflexivity|]. split.
  - intros l. unfold info_at. cbn [e_infos]. f_equal.
    match goal with |- map ?F ?N = map ?G ?N' => assert (E : forall x, G x = F x) end.
    { intros [l0 c0]. cbn [fst]. f_equal. rewrite <- Hr.
      destruct (Forall2_nth_error _ _ _ Hd (fst l0)) as [|dd dd' Hdd]; [reflexivity|].
      rewrite <- (anchors_of_drel dd dd' (snd l0) Hdd). destruct Hdd as (_ & _ & _ & Hb & _ & _). now rewrite <- Hb. }
    induction HN as [|a b r r' [Hab _] _ IH]; cbn [map]; [reflexivity|].
    rewrite E, IH. now rewrite Hab.
  - intros l. unfold node_at. cbn [e_nodes]. now apply lookup_loc_nrel.
Qed.

(** C14: Schema.Resolve is independent of the order of the entries of every map of the schema
    tree and of the documents the Loader returns: the same outcome, the same Loader calls in the
    same order, and Resolved values that differ only in the order of map entries *)
Definition resrel (x y : env * list str) : Prop := erel (fst x) (fst y) /\ snd x = snd y.

Theorem Resolve_srel re_ok fuel root root' baseURI loader loader' :
  srel root root' -> lrel loader loader' ->
  rrel resrel (Resolve re_ok fuel root baseURI loader) (Resolve re_ok fuel root' baseURI loader').
Proof.
  intros H Hl. unfold Resolve.
  destruct (match baseURI with [] => POk empty_uri | _ => parse_uri baseURI end) as [base0| |]; cbn [rrel]; auto.
  set (base := norm_base baseURI base0) in *; clearbody base.
  unfold detectDraft7. rewrite <- (srel_schema _ _ H).
  eapply rrel_bind.
  - apply resolve_doc_rel; [exact Hl| |exact H]. apply strel_mk. constructor.
  - intros x y [Hxy _]. split; cbn [fst snd]; [now apply build_env_rel|apply Hxy].
Qed.

(** ... and so is Resolve followed by Validate *)
From JS Require Import Hash Ann Validate Spec.
Corollary Resolve_Validate_map_order re_ok re_match hash fuel root root' baseURI loader loader' e calls :
  srel root root' -> lrel loader loader' ->
  Resolve re_ok fuel root baseURI loader = Ok (e, calls) ->
  exists e', Resolve re_ok fuel root' baseURI loader' = Ok (e', calls) /\
    forall n inst b, gv_wf inst = true -> isValidSchemaVersion (e_version e) = true ->
      spec_valid re_match n e (den inst) = Some b ->
      Validate re_match hash n e inst = Validate re_match hash n e' inst.
Proof.
  intros H Hl HR. pose proof (Resolve_srel re_ok fuel root root' baseURI loader loader' H Hl) as HS.
  rewrite HR in HS. destruct (Resolve re_ok fuel root' baseURI loader') as [[e' calls']| | |]; cbn in HS; try contradiction.
  destruct HS as [He Hc]. cbn [fst snd] in He, Hc. subst calls'. exists e'. split; [reflexivity|].
  intros n inst b Hw Hv Hs. now apply (Validate_map_order re_match hash n e e' inst b).
Qed.
