(** C10: Part B of "Resolved.Validate never panics".  What Schema.Resolve hands to the evaluator
    satisfies [EnvOK] (val/NoPanic.v): the node table is closed under [children]; every node has
    an info whose base is a node and whose anchors are nodes; every node that holds a $ref or a
    $dynamicRef has its resolved target recorded, and the target is a node. *)
From Coq Require Import List NArith ZArith QArith Bool Lia.
From JS Require Import Str StrFacts Lit Json Res GoValue Schema Basic Pointer PointerFacts ChildFacts Env Uri Resolve ResolveFacts Addressable ResolveTotal Designate DesignateDocs LexFun FieldChildren.
Import ListNotations.
Open Scope list_scope.
Local Open Scope nat_scope.

Lemma loc_eqb_eq a b : loc_eqb a b = true -> a = b.
Proof.
  destruct a as [d p], b as [d' p']. unfold loc_eqb. cbn [fst snd]. intros H. apply andb_true_iff in H as [H1 H2].
  apply Nat.eqb_eq in H1. apply path_eqb_eq in H2. now subst.
Qed.
Lemma lookup_loc_In {A} l : forall (t : list (loc * A)) v, lookup_loc l t = Some v -> In (l, v) t.
Proof.
  induction t as [|[l' x] r IH]; intros v H; [discriminate|]. cbn [lookup_loc] in H.
  destruct (loc_eqb l l') eqn:E; [injection H as <-; apply loc_eqb_eq in E; subst; now left|right; now apply IH].
Qed.
Lemma lookup_loc_unique {A} l (c : A) : forall t, (forall c', In (l, c') t -> c' = c) -> In (l, c) t -> lookup_loc l t = Some c.
Proof.
  induction t as [|[l' x] r IH]; intros Hu Hin; [contradiction|]. cbn [lookup_loc].
  destruct (loc_eqb l l') eqn:E.
  - apply loc_eqb_eq in E. subst l'. f_equal. apply Hu. now left.
  - apply IH; [intros c' H; apply Hu; now right|]. destruct Hin as [[= -> ->]|Hin]; [|exact Hin].
    rewrite loc_eqb_refl in E. discriminate.
Qed.
Lemma lookup_loc_map {A B} (f : loc -> B) l : forall (t : list (loc * A)) c, In (l, c) t ->
  lookup_loc l (map (fun ls => (fst ls, f (fst ls))) t) = Some (f l).
Proof.
  induction t as [|[l' x] r IH]; intros c H; [contradiction|]. cbn [map lookup_loc fst].
  destruct (loc_eqb l l') eqn:E; [apply loc_eqb_eq in E; now subst|].
  destruct H as [[= -> ->]|H]; [rewrite loc_eqb_refl in E; discriminate|]. eapply IH; eauto.
Qed.

(** * the node table of the Resolved *)
Definition nodes_of (docs : list docinfo) : list (loc * schema) :=
  flat_map (fun idi : nat * docinfo => map (fun ps : list seg * schema => ((fst idi, fst ps), snd ps)) (all_sub (di_root (snd idi))))
           (combine (seq 0 (length docs)) docs).

Lemma combine_seq_In {A} : forall (l : list A) k i x, In (i, x) (combine (seq k (length l)) l) <-> (k <= i /\ nth_error l (i - k) = Some x).
Proof.
  induction l as [|y r IH]; intros k i x; cbn [length seq combine].
  - split; [contradiction|]. intros [_ H]. destruct (i - k); discriminate.
  - split.
    + intros [[= <- <-]|H]; [split; [lia|]; now rewrite Nat.sub_diag|].
      apply IH in H as [Hk Hn]. split; [lia|]. replace (i - k) with (S (i - S k)) by lia. exact Hn.
    + intros [Hk Hn]. destruct (Nat.eq_dec i k) as [->|Hne].
      * rewrite Nat.sub_diag in Hn. injection Hn as <-. now left.
      * right. apply IH. split; [lia|]. replace (i - k) with (S (i - S k)) in Hn by lia. exact Hn.
Qed.

Lemma nodes_of_In docs d p c : In ((d, p), c) (nodes_of docs) <-> exists di, nth_error docs d = Some di /\ In (p, c) (all_sub (di_root di)).
Proof.
  unfold nodes_of. rewrite in_flat_map. split.
  - intros ([i di] & Hin & Hm). apply combine_seq_In in Hin as [_ Hn]. rewrite Nat.sub_0_r in Hn.
    apply in_map_iff in Hm as ([p' c'] & [= <- <- <-] & Hs). cbn [fst snd] in *. eauto.
  - intros (di & Hn & Hs). exists (d, di). split; [apply combine_seq_In; rewrite Nat.sub_0_r; split; [lia|exact Hn]|].
    apply in_map_iff. exists (p, c). auto.
Qed.

Definition GoodDocs (docs : list docinfo) : Prop :=
  forall k dk, nth_error docs k = Some dk -> forall p x, In (p, x) (all_sub (di_root dk)) -> good_node x.

Lemma node_lookup docs d p c di : GoodDocs docs -> nth_error docs d = Some di -> In (p, c) (all_sub (di_root di)) ->
  lookup_loc (d, p) (nodes_of docs) = Some c.
Proof.
  intros Hg Hn Hin. apply lookup_loc_unique; [|apply nodes_of_In; eauto].
  intros c' H. apply nodes_of_In in H as (di' & Hn' & Hin'). rewrite Hn in Hn'. injection Hn' as <-.
  pose proof (all_sub_locations _ _ _ (Hg d di Hn) Hin) as H1.
  pose proof (all_sub_locations _ _ _ (Hg d di Hn) Hin') as H2. congruence.
Qed.

(** * the references recorded so far *)
Definition TargetOK (st : rstate) (t : loc) : Prop :=
  exists dk c, nth_error (r_docs st) (fst t) = Some dk /\ In (snd t, c) (all_sub (di_root dk)).
Definition RefsOK (st : rstate) : Prop :=
  forall l rf, In (l, rf) (r_refs st) ->
    (forall t, rf_ref rf = Some t -> TargetOK st t) /\ (forall t, rf_dynref rf = Some t -> TargetOK st t).
Definition Covered (st : rstate) (l : loc) (c : schema) : Prop :=
  (nonempty (s_ref c) = true -> exists rf, lookup_loc l (r_refs st) = Some rf /\ rf_ref rf <> None) /\
  (nonempty (s_dynamicRef c) = true -> exists rf, lookup_loc l (r_refs st) = Some rf /\ rf_dynref rf <> None).
Definition DocCovered (st : rstate) (j : nat) : Prop :=
  forall dj p c, nth_error (r_docs st) j = Some dj -> In (p, c) (all_sub (di_root dj)) -> Covered st (j, p) c.
Definition FULL (st : rstate) : Prop := INV st /\ GoodDocs (r_docs st) /\ RefsOK st.

(* documents are only appended and recorded references are never lost *)
Definition le (st st' : rstate) : Prop :=
  ext st st' /\
  forall l rf, lookup_loc l (r_refs st) = Some rf ->
    exists rf', lookup_loc l (r_refs st') = Some rf' /\ (rf_ref rf <> None -> rf_ref rf' <> None) /\ (rf_dynref rf <> None -> rf_dynref rf' <> None).
Definition NewCov (st st' : rstate) : Prop :=
  forall j, length (r_docs st) <= j < length (r_docs st') -> DocCovered st' j.

Lemma le_refl st : le st st.
Proof. split; [apply ext_refl|]. intros l rf H. exists rf. auto. Qed.
Lemma le_trans a b c : le a b -> le b c -> le a c.
Proof.
  intros [E1 H1] [E2 H2]. split; [eapply ext_trans; eauto|]. intros l rf H.
  destruct (H1 l rf H) as (rf1 & L1 & A1 & B1). destruct (H2 l rf1 L1) as (rf2 & L2 & A2 & B2). exists rf2. auto.
Qed.
Lemma TargetOK_ext st st' t : ext st st' -> TargetOK st t -> TargetOK st' t.
Proof. intros He (dk & c & Hn & Hin). exists dk, c. split; [eapply INV_ext; eauto|exact Hin]. Qed.
Lemma Covered_le st st' l c : le st st' -> Covered st l c -> Covered st' l c.
Proof.
  intros [_ H] [C1 C2]. split; intros Hne.
  - destruct (C1 Hne) as (rf & L & N). destruct (H l rf L) as (rf' & L' & A & _). eauto.
  - destruct (C2 Hne) as (rf & L & N). destruct (H l rf L) as (rf' & L' & _ & B). eauto.
Qed.
Lemma DocCovered_le st st' j : le st st' -> j < length (r_docs st) -> DocCovered st j -> DocCovered st' j.
Proof.
  intros Hle Hj Hc dj p c Hn Hin. apply (Covered_le st st' _ _ Hle). apply (Hc dj p c); [|exact Hin].
  destruct (proj1 Hle) as [extra He]. rewrite He in Hn. rewrite nth_error_app1 in Hn by exact Hj. exact Hn.
Qed.
Lemma NewCov_trans a b c : le b c -> NewCov a b -> NewCov b c -> ext a b -> NewCov a c.
Proof.
  intros Hle H1 H2 He j Hj. destruct (Nat.lt_ge_cases j (length (r_docs b))) as [Hlt|Hge].
  - apply (DocCovered_le b c j Hle Hlt). apply H1. lia.
  - apply H2. lia.
Qed.
Lemma NewCov_refl st : NewCov st st. Proof. intros j Hj. lia. Qed.

(* set_ref, as resolveRefs uses it *)
Lemma set_ref_le_ref st l t : le st (set_ref st l (fun ri => mkRef (Some t) (rf_dynref ri) (rf_dynanchor ri))).
Proof.
  split; [exists []; cbn; now rewrite app_nil_r|]. intros l0 rf H. unfold set_ref. cbn [r_refs lookup_loc].
  destruct (loc_eqb l0 l) eqn:E; [|exists rf; auto].
  apply loc_eqb_eq in E. subst l0. rewrite H. eexists. split; [reflexivity|]. cbn. split; [discriminate|auto].
Qed.
Lemma set_ref_le_dyn st l t a : le st (set_ref st l (fun ri => mkRef (rf_ref ri) (Some t) a)).
Proof.
  split; [exists []; cbn; now rewrite app_nil_r|]. intros l0 rf H. unfold set_ref. cbn [r_refs lookup_loc].
  destruct (loc_eqb l0 l) eqn:E; [|exists rf; auto].
  apply loc_eqb_eq in E. subst l0. rewrite H. eexists. split; [reflexivity|]. cbn. split; [auto|discriminate].
Qed.
Lemma RefsOK_set_ref st l (f : refinfo -> refinfo) :
  RefsOK st ->
  (forall cur, (forall t, rf_ref cur = Some t -> TargetOK st t) -> (forall t, rf_dynref cur = Some t -> TargetOK st t) ->
               (forall t, rf_ref (f cur) = Some t -> TargetOK st t) /\ (forall t, rf_dynref (f cur) = Some t -> TargetOK st t)) ->
  RefsOK (set_ref st l f).
Proof.
  intros Hr Hf l0 rf Hin. unfold set_ref in Hin. cbn [r_refs] in Hin.
  assert (Hsame : forall t, TargetOK st t -> TargetOK (set_ref st l f) t) by (intros t H; exact H).
  destruct Hin as [[= <- <-]|Hin].
  - destruct (lookup_loc l (r_refs st)) as [cur|] eqn:El.
    + apply lookup_loc_In in El. destruct (Hr _ _ El) as [A B]. destruct (Hf cur A B) as [A' B']. split; intros t Ht; apply Hsame; auto.
    + destruct (Hf (mkRef None None []) (fun t H => ltac:(discriminate)) (fun t H => ltac:(discriminate))) as [A' B']. split; intros t Ht; apply Hsame; auto.
  - destruct (Hr _ _ Hin) as [A B]. split; intros t Ht; apply Hsame; auto.
Qed.

(** * what one reference resolves to is a node *)
Lemma frag_target (st2 : rstate) d' dk q frag b0 (x : rstate * (loc * str)) :
  nth_error (r_docs st2) d' = Some dk -> GoodDocs (r_docs st2) -> DocLex dk b0 ->
  (exists s, subschema_at (di_root dk) q = Some s) ->
  match frag with
  | c :: _ =>
      if negb (N.eqb c 47) then
        match lookup frag (anchors_of dk q) with
        | Some (t, dyn) => Ok (st2, ((d', t), if dyn then frag else []))
        | None => Err
        end
      else
        match subschema_at (di_root dk) q with
        | None => Panic
        | Some rs => r <- dereferenceJSONPointer rs frag ;; Ok (st2, ((d', q ++ fst r), []))
        end
  | [] => Ok (st2, ((d', q), []))
  end = Ok x -> fst x = st2 /\ TargetOK st2 (fst (snd x)).
Proof.
  intros Hd Hg Hlex [sq Hsq] H.
  assert (Hlist : forall t c, subschema_at (di_root dk) t = Some c -> TargetOK st2 (d', t)).
  { intros t c Hs. exists dk, c. split; [exact Hd|]. cbn [snd]. now apply location_listed. }
  destruct frag as [|c fr].
  - injection H as <-. split; [reflexivity|]. cbn [fst snd]. eapply Hlist; eauto.
  - cbv beta iota in H. destruct (negb (N.eqb c 47)).
    + destruct (lookup _ (anchors_of dk q)) as [[t dyn]|] eqn:Ea; [|discriminate].
      injection H as <-. split; [reflexivity|]. cbn [fst snd].
      apply lookup_In in Ea. unfold anchors_of in Ea. apply in_map_iff in Ea as ([b1 [nm [t1 dyn1]]] & [= E1 E2 E3] & Hin). subst t1.
      apply filter_In in Hin as [Hin _].
      destruct Hlex as (_ & _ & _ & TA). destruct (TA _ _ _ _ Hin) as (sa & ua & _ & Hs & _). eapply Hlist; eauto.
    + rewrite Hsq in H. destruct (dereferenceJSONPointer sq (c :: fr)) as [[pp cc]| | |] eqn:Ep; cbn [bind] in H; try discriminate.
      injection H as <-. split; [reflexivity|]. cbn [fst snd].
      apply dereference_sound in Ep. apply (Hlist _ cc). eapply subschema_at_app; eauto.
Qed.

Section Full.
  Variable re_ok : str -> bool.
  Variable loader : option (list (str * option schema)).
  Variable rootDraft7 : bool.
  Hypothesis Hload : forall u s, call_loader loader u = Some s -> wfs s.

  Definition loaded2 (st : rstate) (st' : rstate) : Prop :=
    GoodDocs (r_docs st') /\ RefsOK st' /\ le st st' /\ NewCov st st'.

  Section Rec.
    Variable rec : rstate -> schema -> uri -> res (rstate * nat).
    Hypothesis Hrec1 : forall st ls u st' k, INV st -> wfs ls -> rec st ls u = Ok (st', k) -> loaded st ls u st' k.
    Hypothesis Hrec2 : forall st ls u st' k, FULL st -> wfs ls -> rec st ls u = Ok (st', k) -> loaded2 st st'.

    Lemma resolveRef_full di d st p ref st' d' t dynf :
      FULL st -> nth_error (r_docs st) d = Some di ->
      resolveRef loader rec di d st p ref = Ok (st', ((d', t), dynf)) ->
      FULL st' /\ le st st' /\ NewCov st st' /\ TargetOK st' (d', t).
    Proof.
      intros (Hinv & Hgood & Hrefs) Hd H. unfold resolveRef in H.
      destruct (parse_uri ref) as [ref0| |] eqn:Hp; try discriminate.
      destruct (lookup_path p (di_base di)) as [base|] eqn:Hb; [|discriminate].
      destruct (lookup_path base (di_uri di)) as [bu|] eqn:Hu; [|discriminate]. cbn zeta in H.
      set (refURI := resolve_reference bu ref0) in *. set (target := uri_string (drop_frag refURI)) in *.
      destruct (proj1 Hinv d di Hd) as [b0 Hlex].
      destruct (lookup target (di_uris di)) as [q|] eqn:Eq.
      - (* a resource of this document *)
        cbn [bind fst snd] in H. rewrite Hd in H. cbn zeta in H.
        assert (Hq : exists s, subschema_at (di_root di) q = Some s).
        { destruct Hlex as (_ & _ & TR & _). destruct (TR _ _ (lookup_In _ _ _ Eq)) as [[-> _]|(u & Hl & _)]; [now exists (di_root di)|].
          destruct (Lex_location _ _ _ (Hgood d di Hd) _ _ _ Hl) as (s & Hs & _). eauto. }
        destruct (frag_target st d di q (u_frag refURI) b0 _ Hd Hgood Hlex Hq H) as [E T]. cbn [fst snd] in E, T. subst st'.
        split; [exact (conj Hinv (conj Hgood Hrefs))|]. split; [apply le_refl|]. split; [apply NewCov_refl|exact T].
      - destruct (lookup target (r_cache st)) as [d0|] eqn:Ec.
        + (* a cached document *)
          cbn [bind fst snd] in H.
          destruct (proj2 Hinv _ _ Ec) as (dk & bk & Hk & Hlk & _). rewrite Hk in H. cbn zeta in H.
          destruct (frag_target st d0 dk [] (u_frag refURI) bk _ Hk Hgood Hlk (ex_intro _ _ eq_refl) H) as [E T]. cbn [fst snd] in E, T. subst st'.
          split; [exact (conj Hinv (conj Hgood Hrefs))|]. split; [apply le_refl|]. split; [apply NewCov_refl|exact T].
        + (* a document the Loader returns *)
          destruct (call_loader loader target) as [ls|] eqn:El; [|discriminate].
          set (st0 := mkR (r_docs st) (r_cache st) (r_refs st) (r_calls st ++ [target])) in H.
          destruct (rec st0 ls (drop_frag refURI)) as [[st3 k3]| | |] eqn:Er; cbn [bind fst snd] in H; try discriminate.
          assert (Hinv0 : INV st0) by (apply (INV_eq st); [reflexivity|reflexivity|exact Hinv]).
          assert (Hfull0 : FULL st0) by (split; [exact Hinv0|split; [exact Hgood|exact Hrefs]]).
          destruct (Hrec1 _ _ _ _ _ Hinv0 (Hload _ _ El) Er) as (Hinv3 & He3 & Hk3 & dk & Hdk & Hroot & Hlk).
          destruct (Hrec2 _ _ _ _ _ Hfull0 (Hload _ _ El) Er) as (Hgood3 & Hrefs3 & Hle3 & Hnew3).
          rewrite Hdk in H. cbn zeta in H.
          destruct (frag_target st3 k3 dk [] (u_frag refURI) _ _ Hdk Hgood3 Hlk (ex_intro _ _ eq_refl) H) as [E T]. cbn [fst snd] in E, T. subst st'.
          split; [exact (conj Hinv3 (conj Hgood3 Hrefs3))|]. split; [exact Hle3|]. split; [exact Hnew3|exact T].
    Qed.

    Lemma FULL_set_ref st l f :
      FULL st ->
      (forall cur, (forall t, rf_ref cur = Some t -> TargetOK st t) -> (forall t, rf_dynref cur = Some t -> TargetOK st t) ->
                   (forall t, rf_ref (f cur) = Some t -> TargetOK st t) /\ (forall t, rf_dynref (f cur) = Some t -> TargetOK st t)) ->
      FULL (set_ref st l f).
    Proof.
      intros (Hi & Hg & Hr) Hf. split; [apply (INV_eq st); [reflexivity|reflexivity|exact Hi]|]. split; [exact Hg|now apply RefsOK_set_ref].
    Qed.

    Lemma NewCov_step st x st1 : le st x -> NewCov st x -> le x st1 -> length (r_docs st1) = length (r_docs x) -> NewCov st st1.
    Proof.
      intros L1 N1 L2 Hlen. apply (NewCov_trans st x st1 L2 N1); [|exact (proj1 L1)]. intros j Hj. lia.
    Qed.

    Lemma resolveRefs_full di d : forall nodes st st',
      FULL st -> nth_error (r_docs st) d = Some di ->
      resolveRefs loader rec di d nodes st = Ok st' ->
      FULL st' /\ le st st' /\ NewCov st st' /\ forall p c, In (p, c) nodes -> Covered st' (d, p) c.
    Proof.
      induction nodes as [|[p c] r IH]; intros st st' Hfull Hd H; cbn [resolveRefs] in H.
      - injection H as <-. split; [exact Hfull|]. split; [apply le_refl|]. split; [apply NewCov_refl|]. intros p c [].
      - match type of H with (st1 <- ?X ;; _) = _ => destruct X as [st1| | |] eqn:E1 end; cbn [bind] in H; try discriminate.
        match type of H with (st2 <- ?X ;; _) = _ => destruct X as [st2| | |] eqn:E2 end; cbn [bind] in H; try discriminate.
        (* $ref *)
        assert (H1 : FULL st1 /\ le st st1 /\ NewCov st st1 /\
                     (nonempty (s_ref c) = true -> exists rf, lookup_loc (d, p) (r_refs st1) = Some rf /\ rf_ref rf <> None)).
        { destruct (nonempty (s_ref c)) eqn:Enr.
          - destruct (resolveRef loader rec di d st p (s_ref c)) as [[sx [[dx tx] fx]]| | |] eqn:Ex; cbn [bind] in E1; try discriminate.
            injection E1 as <-. cbn [fst snd].
            destruct (resolveRef_full _ _ _ _ _ _ _ _ _ Hfull Hd Ex) as (Fx & Lx & Nx & Tx).
            split; [|split; [|split]].
            + apply FULL_set_ref; [exact Fx|]. intros cur A B. cbn [rf_ref rf_dynref]. split; [intros t [= <-]; exact Tx|exact B].
            + eapply le_trans; [exact Lx|apply set_ref_le_ref].
            + eapply NewCov_step; [exact Lx|exact Nx|apply set_ref_le_ref|reflexivity].
            + intros _. unfold set_ref. cbn [r_refs lookup_loc]. rewrite loc_eqb_refl. eexists. split; [reflexivity|]. cbn. discriminate.
          - injection E1 as <-. split; [exact Hfull|]. split; [apply le_refl|]. split; [apply NewCov_refl|discriminate]. }
        destruct H1 as (F1 & L1 & N1 & C1).
        pose proof (INV_ext _ _ _ _ (proj1 L1) Hd) as Hd1.
        (* $dynamicRef *)
        assert (H2 : FULL st2 /\ le st1 st2 /\ NewCov st1 st2 /\
                     (nonempty (s_dynamicRef c) = true -> exists rf, lookup_loc (d, p) (r_refs st2) = Some rf /\ rf_dynref rf <> None)).
        { destruct (nonempty (s_dynamicRef c)) eqn:Enr.
          - destruct (resolveRef loader rec di d st1 p (s_dynamicRef c)) as [[sx [[dx tx] fx]]| | |] eqn:Ex; cbn [bind] in E2; try discriminate.
            injection E2 as <-. cbn [fst snd].
            destruct (resolveRef_full _ _ _ _ _ _ _ _ _ F1 Hd1 Ex) as (Fx & Lx & Nx & Tx).
            split; [|split; [|split]].
            + apply FULL_set_ref; [exact Fx|]. intros cur A B. cbn [rf_ref rf_dynref]. split; [exact A|intros t [= <-]; exact Tx].
            + eapply le_trans; [exact Lx|apply set_ref_le_dyn].
            + eapply NewCov_step; [exact Lx|exact Nx|apply set_ref_le_dyn|reflexivity].
            + intros _. unfold set_ref. cbn [r_refs lookup_loc]. rewrite loc_eqb_refl. eexists. split; [reflexivity|]. cbn. discriminate.
          - injection E2 as <-. split; [exact F1|]. split; [apply le_refl|]. split; [apply NewCov_refl|discriminate]. }
        destruct H2 as (F2 & L2 & N2 & C2).
        pose proof (INV_ext _ _ _ _ (proj1 L2) Hd1) as Hd2.
        destruct (IH st2 st' F2 Hd2 H) as (F' & L' & N' & C').
        split; [exact F'|]. split; [eapply le_trans; [exact L1|]; eapply le_trans; [exact L2|exact L']|]. split.
        + apply (NewCov_trans st st2 st' L'); [|exact N'|eapply ext_trans; [exact (proj1 L1)|exact (proj1 L2)]].
          apply (NewCov_trans st st1 st2 L2 N1 N2 (proj1 L1)).
        + intros p0 c0 [[= <- <-]|Hin]; [|now apply C'].
          apply (Covered_le st2 st' _ _ L'). split; [|exact C2].
          intros Hne. destruct (C1 Hne) as (rf & Lk & Nn). destruct (proj2 L2 _ _ Lk) as (rf' & Lk' & A & _). eauto.
    Qed.
  End Rec.

  (** resolver.resolve keeps every invariant, and leaves every document it adds covered *)
  Lemma resolve_doc_full : forall n st s b st' k, FULL st -> wfs s ->
    resolve_doc re_ok loader rootDraft7 n st s b = Ok (st', k) -> loaded2 st st'.
  Proof.
    induction n as [|n IH]; intros st s b st' k (Hinv & Hgood & Hrefs) Hs H; [discriminate|].
    cbn [resolve_doc] in H.
    destruct (nonempty (u_frag b)); [discriminate|].
    destruct (negb (check re_ok s)) eqn:Ec; [discriminate|]. apply negb_false_iff in Ec.
    pose proof (check_good re_ok s Ec Hs) as Hgs.
    set (d7 := if nonempty (s_schema s) then detectDraft7 s else rootDraft7) in *.
    destruct (resolveURIs s d7 b) as [di| | |] eqn:Eu; cbn [bind] in H; try discriminate.
    destruct (INV_add_doc st s b d7 di Hinv Hgs Eu) as (ru & Hru & Hlex & Hroot & Hinv1). rewrite Hru in H.
    set (st1 := mkR (r_docs st ++ [di]) ((uri_string ru, length (r_docs st)) :: (uri_string b, length (r_docs st)) :: r_cache st) (r_refs st) (r_calls st)) in *.
    assert (Hd1 : nth_error (r_docs st1) (length (r_docs st)) = Some di).
    { cbn [st1 r_docs]. rewrite nth_error_app2 by lia. now rewrite Nat.sub_diag. }
    assert (Hext1 : ext st st1) by (exists [di]; reflexivity).
    assert (Hfull1 : FULL st1).
    { split; [exact Hinv1|]. split.
      - intros j dj Hj. cbn [st1 r_docs] in Hj. destruct (Nat.lt_ge_cases j (length (r_docs st))) as [Hlt|Hge].
        + rewrite nth_error_app1 in Hj by exact Hlt. now apply (Hgood j).
        + rewrite nth_error_app2 in Hj by exact Hge. destruct (j - length (r_docs st)) as [|j']; [|destruct j'; discriminate].
          injection Hj as <-. rewrite Hroot. exact Hgs.
      - intros l rf Hin. destruct (Hrefs l rf Hin) as [A B].
        split; intros t Ht; apply (TargetOK_ext st st1 t Hext1); auto. }
    assert (Hle1 : le st st1) by (split; [exact Hext1|intros l rf Hl; exists rf; auto]).
    match type of H with (st0 <- ?X ;; _) = _ => destruct X as [st2| | |] eqn:Er end; cbn [bind] in H; try discriminate.
    injection H as <- <-.
    destruct (resolveRefs_full (resolve_doc re_ok loader rootDraft7 n)
                (fun a ls u a' k0 Hi Hw Hr => resolve_doc_loaded re_ok loader rootDraft7 Hload n a ls u a' k0 Hi Hw Hr)
                IH di (length (r_docs st)) (all_sub s) st1 st2 Hfull1 Hd1 Er) as ((Hinv2 & Hgood2 & Hrefs2) & Hle2 & Hnew2 & Hcov).
    split; [exact Hgood2|]. split; [exact Hrefs2|]. split; [eapply le_trans; eauto|].
    intros j Hj. destruct (Nat.eq_dec j (length (r_docs st))) as [->|Hne].
    - intros dj p c Hn Hin. pose proof (INV_ext _ _ _ _ (proj1 Hle2) Hd1) as Hd2. rewrite Hd2 in Hn. injection Hn as <-.
      rewrite Hroot in Hin. now apply Hcov.
    - apply Hnew2. cbn [st1 r_docs]. rewrite app_length. cbn [length]. lia.
  Qed.
End Full.

(** * the Resolved satisfies [EnvOK] *)
From JS Require Import Validate NoPanic.

Lemma Lex_base_location root d7 b0 :
  (forall p x, In (p, x) (all_sub root) -> good_node x) ->
  forall p base u, Lex root d7 b0 p base u -> exists s, subschema_at root base = Some s.
Proof.
  intros Hg p base u H. induction H as [|p base u s q c Hl IH Hs Hc]; [now exists root|].
  unfold nb. destruct (establishes d7 c) eqn:E; [|exact IH].
  assert (Hl' : Lex root d7 b0 (p ++ q) (nb d7 c (p ++ q) base) (nu d7 c u)) by (econstructor; eauto).
  destruct (Lex_location root d7 b0 Hg _ _ _ Hl') as (s' & Hs' & _). eauto.
Qed.

Definition info_of_def (st : rstate) (l : loc) : rinfo :=
  match nth_error (r_docs st) (fst l) with
  | None => mkRinfo l [] None None []
  | Some di =>
      let base := match lookup_path (snd l) (di_base di) with Some b => b | None => [] end in
      let anchors := map (fun e => (fst e, ((fst l, fst (snd e)), snd (snd e)))) (anchors_of di (snd l)) in
      let rf := match lookup_loc l (r_refs st) with Some x => x | None => mkRef None None [] end in
      mkRinfo (fst l, base) anchors (rf_ref rf) (rf_dynref rf) (rf_dynanchor rf)
  end.
Lemma build_env_info d7 root st l c : In (l, c) (nodes_of (r_docs st)) -> info_at (build_env d7 root st) l = Some (info_of_def st l).
Proof. intros H. exact (lookup_loc_map (info_of_def st) l (nodes_of (r_docs st)) c H). Qed.

Section EnvOK.
  Variables (d7 : bool) (root : schema) (st : rstate).
  Hypothesis Hinv : INV st.
  Hypothesis Hgood : GoodDocs (r_docs st).
  Hypothesis Hrefs : RefsOK st.
  Hypothesis Hcov : forall j, j < length (r_docs st) -> DocCovered st j.

  Let e := build_env d7 root st.

  Lemma node_at_nodes l : node_at e l = lookup_loc l (nodes_of (r_docs st)).
  Proof. reflexivity. Qed.

  Lemma Node_iff d p c : Node e (d, p) c <-> exists di, nth_error (r_docs st) d = Some di /\ In (p, c) (all_sub (di_root di)).
  Proof.
    unfold Node. rewrite node_at_nodes. split.
    - intros H. apply lookup_loc_In in H. now apply nodes_of_In in H.
    - intros (di & Hn & Hin). eapply node_lookup; eauto.
  Qed.

  Lemma TargetOK_isNode t : TargetOK st t -> isNode e t.
  Proof. destruct t as [d p]. intros (dk & c & Hn & Hin). exists c. apply Node_iff. eauto. Qed.

  Lemma location_isNode d di p c : nth_error (r_docs st) d = Some di -> subschema_at (di_root di) p = Some c -> isNode e (d, p).
  Proof. intros Hn Hs. exists c. apply Node_iff. exists di. split; [exact Hn|now apply location_listed]. Qed.

  Theorem build_env_EnvOK : EnvOK e.
  Proof.
    constructor.
    - (* closed under children *)
      intros [d p] s q c Hs Hc. apply Node_iff in Hs as (di & Hn & Hin). apply Node_iff. exists di. split; [exact Hn|].
      cbn [child_loc fst snd]. now apply all_sub_closed with (s := s).
    - intros [d p] s Hs. pose proof Hs as Hs0. apply Node_iff in Hs as (di & Hn & Hin).
      assert (Hlt : d < length (r_docs st)) by (apply nth_error_Some; congruence).
      destruct (proj1 Hinv d di Hn) as [b0 Hlex]. pose proof Hlex as (TB & TU & TR & TA).
      (* the info of a node *)
      assert (Hinfo : forall p0 c0, In (p0, c0) (all_sub (di_root di)) -> exists i, info_at e (d, p0) = Some i /\
                ri_base i = (d, match lookup_path p0 (di_base di) with Some b => b | None => [] end) /\
                ri_anchors i = map (fun a => (fst a, ((d, fst (snd a)), snd (snd a)))) (anchors_of di p0) /\
                ri_ref i = rf_ref (match lookup_loc (d, p0) (r_refs st) with Some x => x | None => mkRef None None [] end) /\
                ri_dynref i = rf_dynref (match lookup_loc (d, p0) (r_refs st) with Some x => x | None => mkRef None None [] end)).
      { intros p0 c0 Hin0. exists (info_of_def st (d, p0)). split.
        - apply (build_env_info d7 root st (d, p0) c0). apply (proj2 (nodes_of_In (r_docs st) d p0 c0)). eauto.
        - unfold info_of_def. cbn [fst snd]. rewrite Hn. cbn [ri_base ri_anchors ri_ref ri_dynref]. auto. }
      destruct (Hinfo p s Hin) as (i & Hi & Hbase & _ & Href & Hdyn). exists i. split; [exact Hi|]. split; [|split].
      + (* the base is a node whose anchors are nodes *)
        set (base := match lookup_path p (di_base di) with Some b => b | None => [] end) in *.
        assert (Hb : exists sb, subschema_at (di_root di) base = Some sb).
        { unfold base. destruct (lookup_path p (di_base di)) as [b|] eqn:El; [|now exists (di_root di)].
          destruct (TB _ _ (lookup_path_In _ _ _ El)) as [u Hl]. eapply Lex_base_location; [exact (Hgood d di Hn)|exact Hl]. }
        destruct Hb as [sb Hsb].
        destruct (Hinfo base sb (location_listed _ _ _ Hsb)) as (bi & Hbi & _ & Hanch & _).
        exists bi. rewrite Hbase. split; [exact Hbi|]. intros nm t dflag Hl. rewrite Hanch in Hl.
        apply lookup_In in Hl. apply in_map_iff in Hl as ([nm0 [t0 dyn0]] & [= <- <- <-] & Ha). cbn [fst snd].
        unfold anchors_of in Ha. apply in_map_iff in Ha as ([b1 [nm1 [t1 dyn1]]] & [= E1 E2 E3] & Hin1). subst.
        apply filter_In in Hin1 as [Hin1 _]. destruct (TA _ _ _ _ Hin1) as (sa & ua & _ & Hsa & _).
        eapply location_isNode; eauto.
      + intros Hne. destruct (Hcov d Hlt di p s Hn Hin) as [C1 _].
        destruct (C1 Hne) as (rf & Lk & Nn). rewrite Lk in Href. destruct (rf_ref rf) as [t|] eqn:Et; [|congruence].
        exists t. split; [exact Href|]. apply TargetOK_isNode. apply lookup_loc_In in Lk. exact (proj1 (Hrefs _ _ Lk) t Et).
      + intros Hne. destruct (Hcov d Hlt di p s Hn Hin) as [_ C2].
        destruct (C2 Hne) as (rf & Lk & Nn). rewrite Lk in Hdyn. destruct (rf_dynref rf) as [t|] eqn:Et; [|congruence].
        exists t. split; [exact Hdyn|]. apply TargetOK_isNode. apply lookup_loc_In in Lk. exact (proj2 (Hrefs _ _ Lk) t Et).
  Qed.
End EnvOK.

(** Schema.Resolve: what it returns satisfies [EnvOK], and its root is a node *)
Theorem Resolve_EnvOK re_ok fuel root baseURI loader e calls :
  wfs root -> (forall u s, call_loader loader u = Some s -> wfs s) ->
  Resolve re_ok fuel root baseURI loader = Ok (e, calls) -> EnvOK e /\ isNode e (0, []).
Proof.
  intros Hw Hload H. unfold Resolve in H.
  destruct (match baseURI with [] => POk empty_uri | _ => parse_uri baseURI end) as [base0| |]; try discriminate.
  set (base := norm_base baseURI base0) in *; clearbody base.
  destruct (resolve_doc re_ok loader (detectDraft7 root) fuel (mkR [] [] [] []) root base) as [[st k]| | |] eqn:Er; cbn [bind] in H; try discriminate.
  injection H as <- _. cbn [fst].
  assert (Hfull0 : FULL (mkR [] [] [] [])).
  { split; [apply INV_init|]. split; [intros [|j] dj Hj; discriminate|intros l rf []]. }
  destruct (resolve_doc_full re_ok loader (detectDraft7 root) Hload fuel _ root base st k Hfull0 Hw Er) as (Hgood & Hrefs & Hle & Hnew).
  destruct (resolve_docs_lexical re_ok loader (detectDraft7 root) fuel root base st k Hload Hw Er) as (Hinv & _ & d0 & Hd0 & Hr0 & _).
  split.
  - apply build_env_EnvOK; try assumption. intros j Hj. apply Hnew. cbn [r_docs length]. lia.
  - exists root. apply Node_iff; try assumption. exists d0. split; [exact Hd0|]. rewrite Hr0. apply all_sub_root.
Qed.

(** C10 for Validate: whatever Schema.Resolve returned, Resolved.Validate does not panic -
    for every instance, every regexp oracle, every hash function and every recursion budget *)
Theorem Resolve_Validate_no_panic re_ok re_match hash fuel root baseURI loader e calls vfuel inst :
  wfs root -> (forall u s, call_loader loader u = Some s -> wfs s) ->
  Resolve re_ok fuel root baseURI loader = Ok (e, calls) ->
  Validate re_match hash vfuel e inst <> Panic.
Proof.
  intros Hw Hload H. destruct (Resolve_EnvOK re_ok fuel root baseURI loader e calls Hw Hload H) as [Hok Hroot].
  now apply Validate_no_panic.
Qed.
