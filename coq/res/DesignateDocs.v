(** C03: references that leave their document.  Every document the resolver holds has lexical
    tables ([Tables] of res/Designate.v, for the URI it was retrieved under), and the cache of
    loaded documents maps a URI to a document retrieved under that URI or whose root resource
    has that URI.  A reference whose non-fragment part names no resource of its own document
    therefore designates: the root of the cached or freshly loaded document with that URI (the
    Loader is asked for exactly that URI, once), and its fragment is an anchor declared lexically
    in that document's root resource or a JSON pointer walked from that document's root. *)
From Coq Require Import List NArith ZArith QArith Bool Lia.
From JS Require Import Str StrFacts Lit Json Res GoValue Schema Basic Pointer PointerFacts ChildFacts Env Uri Resolve ResolveFacts Addressable ResolveTotal Designate.
Import ListNotations.
Open Scope list_scope.
Local Open Scope nat_scope.

Definition DocLex (dk : docinfo) (b0 : uri) : Prop := Tables (di_root dk) (di_draft7 dk) b0 None dk.
Definition root_uri (dk : docinfo) (b0 : uri) : uri := nu (di_draft7 dk) (di_root dk) b0.

Definition INV (st : rstate) : Prop :=
  (forall k dk, nth_error (r_docs st) k = Some dk -> exists b0, DocLex dk b0) /\
  (forall us k, lookup us (r_cache st) = Some k ->
     exists dk b0, nth_error (r_docs st) k = Some dk /\ DocLex dk b0 /\
                   (us = uri_string b0 \/ us = uri_string (root_uri dk b0))).

Lemma INV_eq st st' : r_docs st' = r_docs st -> r_cache st' = r_cache st -> INV st -> INV st'.
Proof. intros Hd Hc [H1 H2]. split; [rewrite Hd; exact H1|rewrite Hd, Hc; exact H2]. Qed.

Lemma INV_ext st st' k dk : ext st st' -> nth_error (r_docs st) k = Some dk -> nth_error (r_docs st') k = Some dk.
Proof.
  intros [extra He] H. rewrite He. rewrite nth_error_app1; [exact H|]. apply nth_error_Some. congruence.
Qed.

(* the URI of the root resource *)
Lemma Lex_root_uri root d7 b0 base u : Lex root d7 b0 [] base u -> u = nu d7 root b0.
Proof.
  intros H. remember (@nil seg) as p eqn:Ep. destruct H as [|p base u s q c Hl Hs Hin]; [reflexivity|].
  apply children_nonempty in Hin. apply (f_equal (@length seg)) in Ep. rewrite app_length in Ep. cbn in Ep. lia.
Qed.

Section Docs.
  Variable re_ok : str -> bool.
  Variable loader : option (list (str * option schema)).
  Variable rootDraft7 : bool.
  Hypothesis Hload : forall u s, call_loader loader u = Some s -> wfs s.

  (* what loading a document establishes *)
  Definition loaded (st : rstate) (ls : schema) (u : uri) (st' : rstate) (k : nat) : Prop :=
    INV st' /\ ext st st' /\ k = length (r_docs st) /\
    exists dk, nth_error (r_docs st') k = Some dk /\ di_root dk = ls /\ DocLex dk u.

  Section Rec.
    Variable rec : rstate -> schema -> uri -> res (rstate * nat).
    Hypothesis Hrec : forall st ls u st' k, INV st -> wfs ls -> rec st ls u = Ok (st', k) -> loaded st ls u st' k.

    (** the reference, its target document and what its fragment selects there *)
    Theorem resolveRef_remote di d st p ref st' d' t dynf ref0 base bu :
      INV st ->
      resolveRef loader rec di d st p ref = Ok (st', ((d', t), dynf)) ->
      parse_uri ref = POk ref0 -> lookup_path p (di_base di) = Some base -> lookup_path base (di_uri di) = Some bu ->
      let refURI := resolve_reference bu ref0 in
      let target := uri_string (drop_frag refURI) in
      lookup target (di_uris di) = None ->
      INV st' /\ ext st st' /\
      exists dk b0,
        nth_error (r_docs st') d' = Some dk /\ DocLex dk b0 /\
        (target = uri_string b0 \/ target = uri_string (root_uri dk b0)) /\
        (lookup target (r_cache st) = Some d' \/
         (lookup target (r_cache st) = None /\ call_loader loader target = Some (di_root dk) /\
          b0 = drop_frag refURI /\ d' = length (r_docs st))) /\
        match u_frag refURI with
        | [] => t = []
        | c :: _ =>
            if negb (N.eqb c 47) then
              exists dyn sa ua, Lex (di_root dk) (di_draft7 dk) b0 t [] ua /\ subschema_at (di_root dk) t = Some sa /\
                                declares (di_draft7 dk) sa (u_frag refURI) dyn
            else exists r, dereferenceJSONPointer (di_root dk) (u_frag refURI) = Ok r /\ t = fst r
        end.
    Proof.
      intros Hinv H Hp Hb Hu refURI target Hnone. unfold resolveRef in H. rewrite Hp, Hb, Hu in H. cbn zeta in H.
      fold refURI in H. fold target in H. rewrite Hnone in H.
      (* the target document *)
      match type of H with (tgt <- ?X ;; _) = _ => remember X as tgtx eqn:Etx end.
      assert (Ht : forall st2 k, tgtx = Ok (st2, (k, @nil seg)) ->
                 INV st2 /\ ext st st2 /\
                 exists dk b0, nth_error (r_docs st2) k = Some dk /\ DocLex dk b0 /\
                   (target = uri_string b0 \/ target = uri_string (root_uri dk b0)) /\
                   (lookup target (r_cache st) = Some k \/
                    (lookup target (r_cache st) = None /\ call_loader loader target = Some (di_root dk) /\
                     b0 = drop_frag refURI /\ k = length (r_docs st)))).
      { intros st2 k E. rewrite Etx in E. destruct (lookup target (r_cache st)) as [d0|] eqn:Ec.
        - injection E as <- <-. split; [exact Hinv|]. split; [apply ext_refl|].
          destruct (proj2 Hinv _ _ Ec) as (dk & b0 & Hk & Hlex & Hus). exists dk, b0. auto.
        - destruct (call_loader loader target) as [ls|] eqn:El; [|discriminate].
          set (st0 := mkR _ _ _ _) in E.
          destruct (rec st0 ls (drop_frag refURI)) as [[st3 k3]| | |] eqn:Er; cbn [bind fst snd] in E; try discriminate.
          injection E as <- <-.
          assert (Hinv0 : INV st0) by (apply (INV_eq st); [reflexivity|reflexivity|exact Hinv]).
          destruct (Hrec _ _ _ _ _ Hinv0 (Hload _ _ El) Er) as (Hinv3 & He3 & Hk3 & dk & Hdk & Hroot & Hlex).
          split; [exact Hinv3|]. split; [destruct He3 as [extra He]; exists extra; exact He|].
          exists dk, (drop_frag refURI). split; [exact Hdk|]. split; [exact Hlex|]. split; [left; reflexivity|].
          right. rewrite Hroot. auto. }
      destruct tgtx as [[st2 [k q]]| | |]; cbn [bind fst snd] in H; try discriminate.
      assert (Eq : q = []).
      { destruct (lookup target (r_cache st)); [injection Etx as _ _ ->; reflexivity|].
        destruct (call_loader loader target); [|discriminate].
        destruct (rec _ _ _); cbn [bind] in Etx; try discriminate. injection Etx as _ _ ->. reflexivity. }
      subst q. destruct (Ht st2 k eq_refl) as (Hinv2 & He2 & dk & b0 & Hdk & Hlex & Hus & Hhow).
      rewrite Hdk in H.
      destruct (u_frag refURI) as [|c fr] eqn:Ef.
      - injection H as <- <- <- _. split; [exact Hinv2|]. split; [exact He2|]. exists dk, b0. auto 10.
      - destruct (negb (N.eqb c 47)) eqn:Ec.
        + destruct (lookup (c :: fr) (anchors_of dk [])) as [[t0 dyn]|] eqn:Ea; [|discriminate].
          injection H as <- <- <- _. split; [exact Hinv2|]. split; [exact He2|]. exists dk, b0.
          split; [exact Hdk|]. split; [exact Hlex|]. split; [exact Hus|]. split; [exact Hhow|].
          apply lookup_In in Ea. unfold anchors_of in Ea. apply in_map_iff in Ea as ([b1 [nm [t1 dyn1]]] & [= <- <- <-] & Hin).
          apply filter_In in Hin as [Hin Hb1]. cbn [fst] in Hb1. apply path_eqb_eq in Hb1. subst b1.
          destruct Hlex as (_ & _ & _ & TA). destruct (TA _ _ _ _ Hin) as (sa & ua & Hl & Hs & Hdcl). exists dyn1, sa, ua. auto.
        + cbn [subschema_at] in H.
          destruct (dereferenceJSONPointer (di_root dk) (c :: fr)) as [r| | |] eqn:Epp; cbn [bind] in H; try discriminate.
          injection H as <- <- <- _. split; [exact Hinv2|]. split; [exact He2|]. exists dk, b0.
          split; [exact Hdk|]. split; [exact Hlex|]. split; [exact Hus|]. split; [exact Hhow|]. exists r. auto.
    Qed.

    (* references inside the document keep the state *)
    Lemma resolveRef_inv di d st p ref x : INV st -> resolveRef loader rec di d st p ref = Ok x -> INV (fst x) /\ ext st (fst x).
    Proof.
      intros Hinv H. destruct x as [st' [[d' t] dynf]]. cbn [fst].
      pose proof H as H0. unfold resolveRef in H0.
      destruct (parse_uri ref) as [ref0| |] eqn:Hp; try discriminate.
      destruct (lookup_path p (di_base di)) as [base|] eqn:Hb; [|discriminate].
      destruct (lookup_path base (di_uri di)) as [bu|] eqn:Hu; [|discriminate]. cbn zeta in H0.
      destruct (lookup (uri_string (drop_frag (resolve_reference bu ref0))) (di_uris di)) as [q|] eqn:Eq.
      - (* local: the state is returned unchanged *)
        cbn [bind fst snd] in H0.
        assert (E : st' = st).
        { destruct (nth_error (r_docs st) d) as [di0|]; [|discriminate].
          destruct (u_frag _) as [|c fr]; [now injection H0 as <-|].
          destruct (negb (N.eqb c 47)).
          - destruct (lookup _ (anchors_of di0 q)) as [[t0 dyn]|]; [|discriminate]. now injection H0 as <-.
          - destruct (subschema_at _ q); [|discriminate]. destruct (dereferenceJSONPointer _ _); cbn [bind] in H0; try discriminate. now injection H0 as <-. }
        subst st'. split; [exact Hinv|apply ext_refl].
      - destruct (resolveRef_remote di d st p ref st' d' t dynf ref0 base bu Hinv H Hp Hb Hu Eq) as (Hi & He & _). auto.
    Qed.

    Lemma set_ref_INV st l f : INV st -> INV (set_ref st l f).
    Proof. apply INV_eq; reflexivity. Qed.

    Lemma resolveRefs_inv di d : forall nodes st st', INV st -> resolveRefs loader rec di d nodes st = Ok st' -> INV st' /\ ext st st'.
    Proof.
      induction nodes as [|[p c] r IH]; intros st st' Hinv H; cbn [resolveRefs] in H.
      - injection H as <-. split; [exact Hinv|apply ext_refl].
      - match type of H with (st1 <- ?X ;; _) = _ => destruct X as [st1| | |] eqn:E1 end; cbn [bind] in H; try discriminate.
        match type of H with (st2 <- ?X ;; _) = _ => destruct X as [st2| | |] eqn:E2 end; cbn [bind] in H; try discriminate.
        assert (H1 : INV st1 /\ ext st st1).
        { destruct (nonempty (s_ref c)); [|injection E1 as <-; split; [exact Hinv|apply ext_refl]].
          destruct (resolveRef loader rec di d st p (s_ref c)) as [x| | |] eqn:Ex; cbn [bind] in E1; try discriminate.
          injection E1 as <-. destruct (resolveRef_inv _ _ _ _ _ _ Hinv Ex) as [Hi He]. split; [now apply set_ref_INV|exact He]. }
        destruct H1 as [Hinv1 He1].
        assert (H2 : INV st2 /\ ext st1 st2).
        { destruct (nonempty (s_dynamicRef c)); [|injection E2 as <-; split; [exact Hinv1|apply ext_refl]].
          destruct (resolveRef loader rec di d st1 p (s_dynamicRef c)) as [x| | |] eqn:Ex; cbn [bind] in E2; try discriminate.
          injection E2 as <-. destruct (resolveRef_inv _ _ _ _ _ _ Hinv1 Ex) as [Hi He]. split; [now apply set_ref_INV|exact He]. }
        destruct H2 as [Hinv2 He2].
        destruct (IH st2 st' Hinv2 H) as [Hi He]. split; [exact Hi|]. eapply ext_trans; [exact He1|]. eapply ext_trans; [exact He2|exact He].
    Qed.
  End Rec.

  (** resolver.resolve keeps the invariant and registers the document under its retrieval URI *)
  Lemma resolve_doc_loaded : forall n st s b st' k, INV st -> wfs s ->
    resolve_doc re_ok loader rootDraft7 n st s b = Ok (st', k) -> loaded st s b st' k.
  Proof.
    induction n as [|n IH]; intros st s b st' k Hinv Hs H; [discriminate|].
    pose proof (resolve_doc_docs re_ok loader rootDraft7 (S n) st s b st' k H) as (Hext & Hk & _).
    cbn [resolve_doc] in H.
    destruct (nonempty (u_frag b)); [discriminate|].
    destruct (negb (check re_ok s)) eqn:Ec; [discriminate|]. apply negb_false_iff in Ec.
    pose proof (check_good re_ok s Ec Hs) as Hgood.
    set (d7 := if nonempty (s_schema s) then detectDraft7 s else rootDraft7) in *.
    destruct (resolveURIs s d7 b) as [di| | |] eqn:Eu; cbn [bind] in H; try discriminate.
    destruct (resolveURIs_lex s d7 b di Hgood Eu) as (Htab & Hroot & Hd7).
    assert (Hlex : DocLex di b) by (unfold DocLex; rewrite Hroot, Hd7; exact Htab).
    (* the root resource has a URI *)
    assert (Hhas : has [] (di_uri di)).
    { assert (Hw : walk_res s (ru_walk (size s) (mkDoc s d7 [(uri_string b, [])] [] [([], b)] []) [] s [])
                     (mkDoc s d7 [(uri_string b, [])] [] [([], b)] []) (all_sub_fuel (size s) [] s)).
      { apply ru_walk_ok; [apply le_n|exact Hgood|reflexivity| |apply has_self].
        split; cbn [di_base di_uris di_uri]; [intros q b0 []|intros u q [[= <- <-]|[]]; cbn [subschema_at]; discriminate]. }
      unfold resolveURIs in Eu. rewrite Eu in Hw. cbn [walk_res] in Hw. destruct Hw as (_ & Hkeep & _). apply Hkeep. apply has_self. }
    destruct Hhas as [ru Hru]. rewrite Hru in H.
    assert (Eru : ru = root_uri di b).
    { destruct Htab as (_ & TU & _). unfold root_uri. rewrite Hroot, Hd7. eapply Lex_root_uri. apply TU; [exact Hru|discriminate]. }
    set (st1 := mkR (r_docs st ++ [di]) ((uri_string ru, length (r_docs st)) :: (uri_string b, length (r_docs st)) :: r_cache st) (r_refs st) (r_calls st)) in H.
    assert (Hd1 : nth_error (r_docs st1) (length (r_docs st)) = Some di).
    { cbn [st1 r_docs]. rewrite nth_error_app2 by lia. now rewrite Nat.sub_diag. }
    assert (Hinv1 : INV st1).
    { split; cbn [st1 r_docs r_cache].
      - intros j dj Hj. destruct (Nat.lt_ge_cases j (length (r_docs st))) as [Hlt|Hge].
        + rewrite nth_error_app1 in Hj by exact Hlt. now apply (proj1 Hinv j).
        + rewrite nth_error_app2 in Hj by exact Hge. destruct (j - length (r_docs st)) as [|j']; [|destruct j'; discriminate].
          injection Hj as <-. exists b. exact Hlex.
      - intros us j Hl. cbn [lookup] in Hl.
        destruct (str_eqb us (uri_string ru)) eqn:E1.
        { injection Hl as <-. apply str_eqb_eq in E1. exists di, b. split; [exact Hd1|]. split; [exact Hlex|]. right. now rewrite <- Eru. }
        destruct (str_eqb us (uri_string b)) eqn:E2.
        { injection Hl as <-. apply str_eqb_eq in E2. exists di, b. split; [exact Hd1|]. split; [exact Hlex|]. now left. }
        destruct (proj2 Hinv us j Hl) as (dj & bj & Hj & Hlj & Huj). exists dj, bj. split; [|auto].
        rewrite nth_error_app1; [exact Hj|]. apply nth_error_Some. congruence. }
    match type of H with (st0 <- ?X ;; _) = _ => destruct X as [st2| | |] eqn:Er end; cbn [bind] in H; try discriminate.
    injection H as <- <-.
    destruct (resolveRefs_inv (resolve_doc re_ok loader rootDraft7 n) IH di (length (r_docs st)) (all_sub s) st1 st2 Hinv1 Er) as [Hinv2 He2].
    split; [exact Hinv2|]. split; [exact Hext|]. split; [reflexivity|].
    exists di. split; [eapply INV_ext; eauto|]. split; [exact Hroot|exact Hlex].
  Qed.
  (* the state in which the references of a freshly identified document are resolved *)
  Lemma INV_add_doc st s b d7 di :
    INV st -> (forall p x, In (p, x) (all_sub s) -> good_node x) -> resolveURIs s d7 b = Ok di ->
    exists ru, lookup_path [] (di_uri di) = Some ru /\ DocLex di b /\ di_root di = s /\
      INV (mkR (r_docs st ++ [di]) ((uri_string ru, length (r_docs st)) :: (uri_string b, length (r_docs st)) :: r_cache st) (r_refs st) (r_calls st)).
  Proof.
    intros Hinv Hgood Eu.
    destruct (resolveURIs_lex s d7 b di Hgood Eu) as (Htab & Hroot & Hd7).
    assert (Hlex : DocLex di b) by (unfold DocLex; rewrite Hroot, Hd7; exact Htab).
    assert (Hhas : has [] (di_uri di)).
    { assert (Hw : walk_res s (ru_walk (size s) (mkDoc s d7 [(uri_string b, [])] [] [([], b)] []) [] s [])
                     (mkDoc s d7 [(uri_string b, [])] [] [([], b)] []) (all_sub_fuel (size s) [] s)).
      { apply ru_walk_ok; [apply le_n|exact Hgood|reflexivity| |apply has_self].
        split; cbn [di_base di_uris di_uri]; [intros q b0 []|intros u q [[= <- <-]|[]]; cbn [subschema_at]; discriminate]. }
      unfold resolveURIs in Eu. rewrite Eu in Hw. cbn [walk_res] in Hw. destruct Hw as (_ & Hkeep & _). apply Hkeep. apply has_self. }
    destruct Hhas as [ru Hru]. exists ru. split; [exact Hru|]. split; [exact Hlex|]. split; [exact Hroot|].
    assert (Eru : ru = root_uri di b).
    { destruct Htab as (_ & TU & _). unfold root_uri. rewrite Hroot, Hd7. eapply Lex_root_uri. apply TU; [exact Hru|discriminate]. }
    assert (Hd1 : nth_error (r_docs st ++ [di]) (length (r_docs st)) = Some di).
    { rewrite nth_error_app2 by lia. now rewrite Nat.sub_diag. }
    split; cbn [r_docs r_cache].
    - intros j dj Hj. destruct (Nat.lt_ge_cases j (length (r_docs st))) as [Hlt|Hge].
      + rewrite nth_error_app1 in Hj by exact Hlt. now apply (proj1 Hinv j).
      + rewrite nth_error_app2 in Hj by exact Hge. destruct (j - length (r_docs st)) as [|j']; [|destruct j'; discriminate].
        injection Hj as <-. exists b. exact Hlex.
    - intros us j Hl. cbn [lookup] in Hl.
      destruct (str_eqb us (uri_string ru)) eqn:E1.
      { injection Hl as <-. apply str_eqb_eq in E1. exists di, b. split; [exact Hd1|]. split; [exact Hlex|]. right. now rewrite <- Eru. }
      destruct (str_eqb us (uri_string b)) eqn:E2.
      { injection Hl as <-. apply str_eqb_eq in E2. exists di, b. split; [exact Hd1|]. split; [exact Hlex|]. now left. }
      destruct (proj2 Hinv us j Hl) as (dj & bj & Hj & Hlj & Huj). exists dj, bj. split; [|auto].
      rewrite nth_error_app1; [exact Hj|]. apply nth_error_Some. congruence.
  Qed.
End Docs.

(** for the resolver as it runs ([rec] is resolver.resolve itself): a reference out of its document *)
Theorem resolve_remote_designates re_ok loader rootDraft7 n di d st p ref st' d' t dynf ref0 base bu :
  (forall u s, call_loader loader u = Some s -> wfs s) ->
  INV st ->
  resolveRef loader (resolve_doc re_ok loader rootDraft7 n) di d st p ref = Ok (st', ((d', t), dynf)) ->
  parse_uri ref = POk ref0 -> lookup_path p (di_base di) = Some base -> lookup_path base (di_uri di) = Some bu ->
  let refURI := resolve_reference bu ref0 in
  let target := uri_string (drop_frag refURI) in
  lookup target (di_uris di) = None ->
  exists dk b0,
    nth_error (r_docs st') d' = Some dk /\ DocLex dk b0 /\
    (target = uri_string b0 \/ target = uri_string (root_uri dk b0)) /\
    (lookup target (r_cache st) = Some d' \/
     (lookup target (r_cache st) = None /\ call_loader loader target = Some (di_root dk) /\
      b0 = drop_frag refURI /\ d' = length (r_docs st))) /\
    match u_frag refURI with
    | [] => t = []
    | c :: _ =>
        if negb (N.eqb c 47) then
          exists dyn sa ua, Lex (di_root dk) (di_draft7 dk) b0 t [] ua /\ subschema_at (di_root dk) t = Some sa /\
                            declares (di_draft7 dk) sa (u_frag refURI) dyn
        else exists r, dereferenceJSONPointer (di_root dk) (u_frag refURI) = Ok r /\ t = fst r
    end.
Proof.
  intros Hload Hinv H Hp Hb Hu refURI target Hnone.
  destruct (resolveRef_remote loader Hload (resolve_doc re_ok loader rootDraft7 n)
              (fun st0 ls u st1 k Hi Hw Hr => resolve_doc_loaded re_ok loader rootDraft7 Hload n st0 ls u st1 k Hi Hw Hr)
              di d st p ref st' d' t dynf ref0 base bu Hinv H Hp Hb Hu Hnone) as (_ & _ & Hex).
  exact Hex.
Qed.

(** the resolver starts from a state that satisfies the invariant *)
Lemma INV_init : INV (mkR [] [] [] []).
Proof. split; [intros [|k] dk H; discriminate|intros us k H; discriminate]. Qed.

(** Schema.Resolve: when it succeeds, every document it holds (the root's and every loaded one) has
    lexical tables for the URI it was retrieved under, the root's document is number 0 and was read
    under the base URI, and every cache entry names a document by its retrieval or root URI *)
Theorem resolve_docs_lexical re_ok loader rootDraft7 fuel root base st' k :
  (forall u s, call_loader loader u = Some s -> wfs s) -> wfs root ->
  resolve_doc re_ok loader rootDraft7 fuel (mkR [] [] [] []) root base = Ok (st', k) ->
  INV st' /\ k = 0 /\ exists d0, nth_error (r_docs st') 0 = Some d0 /\ di_root d0 = root /\ DocLex d0 base.
Proof.
  intros Hload Hw H.
  destruct (resolve_doc_loaded re_ok loader rootDraft7 Hload fuel _ root base st' k INV_init Hw H) as (Hi & _ & Hk & dk & Hdk & Hr & Hl).
  cbn [r_docs length] in Hk. subst k. split; [exact Hi|]. split; [reflexivity|]. exists dk. auto.
Qed.
