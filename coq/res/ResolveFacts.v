(** Facts about Schema.Resolve: the Resolved it returns is rooted at the schema it was given,
    with the draft and $schema of that root. *)
From Coq Require Import List NArith ZArith QArith Bool Lia.
From JS Require Import Str StrFacts Lit Json Res GoValue Schema Basic Pointer Env Uri Resolve.
Import ListNotations.
Open Scope list_scope.
Local Open Scope nat_scope.

Section Facts.
  Variable re_ok : str -> bool.
  Variable loader : option (list (str * option schema)).
  Variable rootDraft7 : bool.

  Lemma setAnchor_root di base name p dyn : di_root (setAnchor di base name p dyn) = di_root di.
  Proof. unfold setAnchor. destruct name; [reflexivity|]. destruct (is_some _); reflexivity. Qed.

  Lemma ru_walk_root : forall n di p s b di', ru_walk n di p s b = Ok di' -> di_root di' = di_root di.
  Proof.
    induction n as [|n IH]; intros di p s b di' H; [discriminate|]. cbn [ru_walk] in H.
    match type of H with (step <- ?X ;; _) = _ => destruct X as [[di1 base1]| | |] eqn:Es end; cbn [bind] in H; try discriminate.
    assert (Hr1 : di_root di1 = di_root di).
    { destruct (nonempty (s_id s) && _); [|now injection Es as <- _].
      destruct (parse_uri (s_id s)) as [u| |]; try discriminate.
      destruct (negb (di_draft7 di) && nonempty (u_frag u)); [discriminate|].
      destruct (di_draft7 di && nonempty (u_frag u)); [injection Es as <- _; apply setAnchor_root|].
      destruct (lookup_path b (di_uri di)); [|discriminate].
      destruct (negb (is_abs _)); [discriminate|]. now injection Es as <- _. }
    cbn [fst snd] in H.
    set (di3 := if di_draft7 _ then _ else _) in H.
    assert (Hr3 : di_root di3 = di_root di).
    { unfold di3. cbn [di_draft7 di_root]. destruct (di_draft7 di1); cbn [di_root]; [exact Hr1|]. rewrite !setAnchor_root. exact Hr1. }
    clearbody di3. revert di3 Hr3 H. generalize (children s) as cs.
    induction cs as [|[q c] r IHr]; intros di3 Hr3 H.
    - injection H as <-. exact Hr3.
    - destruct (ru_walk n di3 (p ++ q) c base1) as [dc| | |] eqn:Ec; cbn [bind] in H; try discriminate.
      apply (IHr dc); [|exact H]. rewrite (IH _ _ _ _ _ Ec). exact Hr3.
  Qed.

  Lemma resolveURIs_root s d7 b di : resolveURIs s d7 b = Ok di -> di_root di = s.
  Proof. unfold resolveURIs. intros H. now rewrite (ru_walk_root _ _ _ _ _ _ H). Qed.

  (** documents are only ever appended *)
  Definition ext (st st' : rstate) : Prop := exists extra, r_docs st' = r_docs st ++ extra.
  Lemma ext_refl st : ext st st. Proof. exists []. now rewrite app_nil_r. Qed.
  Lemma ext_trans a b c : ext a b -> ext b c -> ext a c.
  Proof. intros [x Hx] [y Hy]. exists (x ++ y). now rewrite Hy, Hx, app_assoc. Qed.

  Section Rec.
    Variable rec : rstate -> schema -> uri -> res (rstate * nat).
    Hypothesis Hrec : forall st s u r, rec st s u = Ok r -> ext st (fst r).

    Lemma resolveRef_ext di d st p ref x : resolveRef loader rec di d st p ref = Ok x -> ext st (fst x).
    Proof.
      unfold resolveRef. intros H.
      destruct (parse_uri ref) as [u0| |]; try discriminate.
      destruct (lookup_path p (di_base di)) as [base|]; [|discriminate].
      destruct (lookup_path base (di_uri di)) as [bu|]; [|discriminate].
      match type of H with (tgt <- ?X ;; _) = _ => destruct X as [[st2 [d' q]]| | |] eqn:Et end; cbn [bind] in H; try discriminate.
      assert (He : ext st st2).
      { destruct (lookup _ (di_uris di)); [injection Et as <- _ _; apply ext_refl|].
        destruct (lookup _ (r_cache st)); [injection Et as <- _ _; apply ext_refl|].
        destruct (call_loader loader _) as [ls|]; [|discriminate].
        destruct (rec _ ls _) as [r| | |] eqn:Er; cbn [bind] in Et; try discriminate. injection Et as <- _ _.
        apply Hrec in Er. destruct Er as [extra He]. exists extra. exact He. }
      cbn [fst snd] in H.
      destruct (nth_error (r_docs st2) d') as [di'|]; [|discriminate].
      destruct (u_frag _) as [|c fr].
      - injection H as <-. exact He.
      - destruct (negb (N.eqb c 47)).
        + destruct (lookup _ (anchors_of di' q)) as [[t dyn]|]; [|discriminate]. injection H as <-. exact He.
        + destruct (subschema_at _ q) as [rs|]; [|discriminate].
          destruct (dereferenceJSONPointer rs _) as [r| | |]; cbn [bind] in H; try discriminate. injection H as <-. exact He.
    Qed.

    Lemma set_ref_docs st l f : r_docs (set_ref st l f) = r_docs st.
    Proof. reflexivity. Qed.

    Lemma resolveRefs_ext di d : forall nodes st st', resolveRefs loader rec di d nodes st = Ok st' -> ext st st'.
    Proof.
      induction nodes as [|[p c] r IH]; intros st st' H; cbn [resolveRefs] in H.
      - injection H as <-. apply ext_refl.
      - match type of H with (st1 <- ?X ;; _) = _ => destruct X as [st1| | |] eqn:E1 end; cbn [bind] in H; try discriminate.
        match type of H with (st2 <- ?X ;; _) = _ => destruct X as [st2| | |] eqn:E2 end; cbn [bind] in H; try discriminate.
        assert (H1 : ext st st1).
        { destruct (nonempty (s_ref c)); [|injection E1 as <-; apply ext_refl].
          destruct (resolveRef loader rec di d st p (s_ref c)) as [x| | |] eqn:Ex; cbn [bind] in E1; try discriminate.
          injection E1 as <-. apply resolveRef_ext in Ex. destruct Ex as [extra He]. exists extra. exact He. }
        assert (H2 : ext st1 st2).
        { destruct (nonempty (s_dynamicRef c)); [|injection E2 as <-; apply ext_refl].
          destruct (resolveRef loader rec di d st1 p (s_dynamicRef c)) as [x| | |] eqn:Ex; cbn [bind] in E2; try discriminate.
          injection E2 as <-. apply resolveRef_ext in Ex. destruct Ex as [extra He]. exists extra. exact He. }
        eapply ext_trans; [exact H1|]. eapply ext_trans; [exact H2|]. now apply IH.
    Qed.
  End Rec.

  Lemma resolve_doc_docs : forall n st s b st' d,
    resolve_doc re_ok loader rootDraft7 n st s b = Ok (st', d) ->
    ext st st' /\ d = length (r_docs st) /\ exists di, nth_error (r_docs st') d = Some di /\ di_root di = s.
  Proof.
    induction n as [|n IH]; intros st s b st' d H; [discriminate|]. cbn [resolve_doc] in H.
    destruct (nonempty (u_frag b)); [discriminate|].
    destruct (negb (check re_ok s)); [discriminate|].
    destruct (resolveURIs s _ b) as [di| | |] eqn:Eu; cbn [bind] in H; try discriminate.
    match type of H with (st0 <- ?X ;; _) = _ => destruct X as [st2| | |] eqn:Er end; cbn [bind] in H; try discriminate.
    injection H as <- <-.
    apply resolveRefs_ext in Er.
    2:{ intros st0 s0 u r Hr. destruct r as [st3 d3]. apply IH in Hr. exact (proj1 Hr). }
    destruct Er as [extra He]. cbn [r_docs] in He.
    split; [exists ([di] ++ extra); now rewrite He, <- app_assoc|]. split; [reflexivity|].
    exists di. split; [|now apply resolveURIs_root in Eu].
    rewrite He, <- app_assoc. rewrite nth_error_app2 by lia. now rewrite Nat.sub_diag.
  Qed.
End Facts.

Lemma loc_eqb_refl l : loc_eqb l l = true.
Proof.
  unfold loc_eqb. rewrite Nat.eqb_refl. cbn [andb]. induction (snd l) as [|x r IH]; [reflexivity|]. cbn [path_eqb].
  rewrite IH, andb_true_r. destruct x; cbn; [apply str_eqb_refl|apply Nat.eqb_refl].
Qed.

(** the Resolved is rooted at the schema given to Resolve, and carries its draft and $schema *)
Theorem Resolve_root re_ok fuel root baseURI loader e calls :
  Resolve re_ok fuel root baseURI loader = Ok (e, calls) ->
  node_at e (0, []) = Some root /\ e_draft7 e = detectDraft7 root /\ e_version e = s_schema root.
Proof.
  unfold Resolve. intros H.
  destruct (match baseURI with [] => POk empty_uri | _ => parse_uri baseURI end) as [b0| |]; try discriminate.
  set (b := norm_base baseURI b0) in *; clearbody b.
  destruct (resolve_doc re_ok loader (detectDraft7 root) fuel (mkR [] [] [] []) root b) as [[st d]| | |] eqn:Er; cbn [bind] in H; try discriminate.
  injection H as <- _.
  destruct (resolve_doc_docs _ _ _ _ _ _ _ _ _ Er) as (_ & Hd & di & Hn & Hroot). cbn [r_docs length] in Hd. subst d.
  split; [|split; reflexivity].
  unfold node_at, build_env. cbn [e_nodes fst].
  destruct (r_docs st) as [|d0 ds] eqn:Ed; [discriminate|]. cbn in Hn. injection Hn as ->.
  cbn [length seq combine flat_map fst snd]. rewrite Hroot.
  unfold all_sub. destruct (size root) eqn:Es.
  - (* sizes are positive *) exfalso. destruct root; cbn in Es; lia.
  - cbn [all_sub_fuel map app lookup_loc fst snd]. now rewrite loc_eqb_refl.
Qed.
