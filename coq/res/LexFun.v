(** C03: the lexical base and resource URI of a location are functions of the location
    ([Lex] of res/Designate.v is deterministic): a location has one parent location. *)
From Coq Require Import List NArith ZArith QArith Bool Lia.
From JS Require Import Str StrFacts Lit Json Res GoValue Schema Basic Pointer PointerFacts ChildFacts Env Uri Resolve ResolveFacts Addressable ResolveTotal Designate.
Import ListNotations.
Open Scope list_scope.
Local Open Scope nat_scope.

Lemma subschema_at_app_eq : forall p s c q, subschema_at s p = Some c -> subschema_at s (p ++ q) = subschema_at c q.
Proof.
  induction p as [p IH] using (induction_ltof1 _ (@length seg)). unfold ltof in IH.
  intros s c q H. destruct p as [|[f|i] r]; cbn [app subschema_at] in *.
  - now injection H as <-.
  - destruct (lookup_field f s) as [[c0| |l|m|]|]; try discriminate.
    + apply (IH r); [cbn; lia|exact H].
    + destruct r as [|[k|i] r']; try discriminate. destruct (nth_error l i) as [c1|] eqn:En; [|discriminate].
      cbn [app]. rewrite En. apply (IH r'); [cbn; lia|exact H].
    + destruct r as [|[k|i] r']; try discriminate. destruct (lookup k m) as [c1|] eqn:El; [|discriminate].
      cbn [app]. rewrite El. apply (IH r'); [cbn; lia|exact H].
  - discriminate.
Qed.

(* a child reached by a two-segment path (an element of a list or map keyword): the keyword alone is no location *)
Lemma children2_none s a b c : good_node s -> In ([a; b], c) (children s) -> subschema_at s [a] = None.
Proof.
  intros [Hb Hm] H. unfold maps_nodup in Hm. destruct Hm as (N0 & N1 & N2 & N3 & N4 & N5).
  unfold children in H.
  repeat (apply in_app_or in H; destruct H as [H|H]);
    match type of H with
    | In _ (match ?X with _ => _ end) => destruct X as [v|] eqn:E; [|contradiction]
    end;
    try (destruct H as [[= ]|[]]; fail);
    try (apply In_idx_children in H as (j & [= -> ->] & _));
    cbn [omap] in *;
    try (apply In_map_children in H as (k & [= -> ->] & _); [|first [exact N0|exact N1|exact N2|exact N3|exact N4|exact N5]]).
  all: try (vm_compute; reflexivity).
  (* "items": the array form excludes the schema form *)
  assert (Ei : s_items s = None).
  { unfold basicChecks in Hb. rewrite E in Hb. destruct (s_items s); [|reflexivity].
    cbn [is_some andb negb] in Hb. rewrite !andb_false_r in Hb. cbn in Hb. discriminate. }
  cbn [subschema_at].
  assert (El : lookup_field [105; 116; 101; 109; 115]%N s = Some (match s_items s with Some c => PSchema c | None => opt_schemas (s_itemsArray s) end)) by (vm_compute; reflexivity).
  rewrite El, Ei. reflexivity.
Qed.


Lemma children_len s q c : In (q, c) (children s) -> length q = 1 \/ length q = 2.
Proof.
  unfold children. intros H.
  repeat (apply in_app_or in H; destruct H as [H|H]);
    match type of H with context [match ?X with _ => _ end] => destruct X end; try contradiction;
    try (destruct H as [[= <- <-]|[]]; cbn; auto; fail);
    try (apply In_idx_children in H as (j & -> & _); cbn; auto; fail);
    try (unfold map_children in H; apply in_map_iff in H as ([k c0] & [= <- <-] & _); cbn; auto; fail).
Qed.

(** a location has one parent location *)
Lemma parent_unique root p s q c p' s' q' c' :
  good_node s -> good_node s' ->
  subschema_at root p = Some s -> In (q, c) (children s) ->
  subschema_at root p' = Some s' -> In (q', c') (children s') ->
  p ++ q = p' ++ q' -> p = p' /\ q = q' /\ c = c'.
Proof.
  intros Hg Hg' Hs Hc Hs' Hc' E.
  assert (Hsame : p = p' -> p = p' /\ q = q' /\ c = c').
  { intros <-. apply app_inv_head in E. subst q'. rewrite Hs in Hs'. injection Hs' as <-.
    pose proof (children_subschema s (proj1 Hg) (proj2 Hg) q c Hc) as H1.
    pose proof (children_subschema s (proj1 Hg) (proj2 Hg) q c' Hc') as H2.
    rewrite H1 in H2. injection H2 as <-. auto. }
  pose proof (children_len _ _ _ Hc) as Hl. pose proof (children_len _ _ _ Hc') as Hl'.
  apply app_eq_app in E as [l [[-> ->]|[-> ->]]].
  - (* p = p' ++ l, q' = l ++ q *)
    destruct l as [|a l]; [apply Hsame; now rewrite app_nil_r|]. exfalso.
    rewrite app_length in Hl'. cbn [length] in Hl'.
    destruct l as [|a' l]; [|cbn [length] in Hl'; lia].
    destruct q as [|b q]; [cbn in Hl; lia|]. destruct q as [|b' q]; [|cbn [length] in Hl'; lia].
    cbn [app] in Hc'.
    rewrite (subschema_at_app_eq p' root s' [a] Hs') in Hs.
    rewrite (children2_none s' a b c' Hg' Hc') in Hs. discriminate.
  - destruct l as [|a l]; [apply Hsame; now rewrite app_nil_r|]. exfalso.
    rewrite app_length in Hl. cbn [length] in Hl.
    destruct l as [|a' l]; [|cbn [length] in Hl; lia].
    destruct q' as [|b q']; [cbn in Hl'; lia|]. destruct q' as [|b' q']; [|cbn [length] in Hl; lia].
    cbn [app] in Hc.
    rewrite (subschema_at_app_eq p root s [a] Hs) in Hs'.
    rewrite (children2_none s a b c Hg Hc) in Hs'. discriminate.
Qed.

(** [Lex] is a function of the location *)
Theorem Lex_fun root d7 b0 :
  (forall p s, subschema_at root p = Some s -> good_node s) ->
  forall p base u, Lex root d7 b0 p base u -> forall base' u', Lex root d7 b0 p base' u' -> base = base' /\ u = u'.
Proof.
  intros Hg p base u H. induction H as [|p base u s q c Hl IH Hs Hc]; intros base' u' H'.
  - remember (@nil seg) as p0 eqn:Ep. destruct H' as [|p' b1 u1 s' q' c' Hl' Hs' Hc']; [auto|].
    apply children_nonempty in Hc'. apply (f_equal (@length seg)) in Ep. rewrite app_length in Ep. cbn in Ep. lia.
  - remember (p ++ q) as pq eqn:Ep. destruct H' as [|p' b1 u1 s' q' c' Hl' Hs' Hc'].
    + apply children_nonempty in Hc. apply (f_equal (@length seg)) in Ep. rewrite app_length in Ep. cbn in Ep. lia.
    + destruct (parent_unique root p' s' q' c' p s q c (Hg _ _ Hs') (Hg _ _ Hs) Hs' Hc' Hs Hc Ep) as (-> & -> & ->).
      destruct (IH _ _ Hl') as [-> ->]. auto.
Qed.

(** the nodes [all_sub] lists are closed under [children] *)
Lemma all_sub_fuel_closed : forall n p s p' s' q c, size s <= n ->
  In (p', s') (all_sub_fuel n p s) -> In (q, c) (children s') -> In (p' ++ q, c) (all_sub_fuel n p s).
Proof.
  induction n as [|n IH]; intros p s p' s' q c Hn Hin Hc; [contradiction|].
  cbn [all_sub_fuel] in Hin |- *. destruct Hin as [[= <- <-]|Hin].
  - right. apply in_flat_map. exists (q, c). split; [exact Hc|]. cbn [fst snd].
    pose proof (children_size s q c Hc) as Hlt. pose proof (size_pos c) as Hpos.
    destruct n as [|n]; [lia|]. cbn [all_sub_fuel]. now left.
  - right. apply in_flat_map in Hin as ([q0 c0] & Hc0 & Hin). cbn [fst snd] in Hin.
    apply in_flat_map. exists (q0, c0). split; [exact Hc0|]. cbn [fst snd].
    apply (IH (p ++ q0) c0 p' s' q c); [|exact Hin|exact Hc]. pose proof (children_size s q0 c0 Hc0). lia.
Qed.

Lemma Lex_location root d7 b0 :
  (forall p x, In (p, x) (all_sub root) -> good_node x) ->
  forall p base u, Lex root d7 b0 p base u -> exists s, subschema_at root p = Some s /\ In (p, s) (all_sub root).
Proof.
  intros Hg p base u H. induction H as [|p base u s q c Hl IH Hs Hc].
  - exists root. split; [reflexivity|]. unfold all_sub. pose proof (size_pos root). destruct (size root); [lia|]. cbn [all_sub_fuel]. now left.
  - destruct IH as (s0 & Hs0 & Hin). rewrite Hs in Hs0. injection Hs0 as <-.
    exists c. split.
    + eapply subschema_at_app; [exact Hs|]. destruct (Hg _ _ Hin) as [Hb Hm]. now apply children_subschema.
    + unfold all_sub in *. apply all_sub_fuel_closed with (s' := s); [apply le_n|exact Hin|exact Hc].
Qed.

(** ... for a document whose nodes passed the structural checks *)
Theorem Lex_function root d7 b0 :
  (forall p x, In (p, x) (all_sub root) -> good_node x) ->
  forall p base u base' u', Lex root d7 b0 p base u -> Lex root d7 b0 p base' u' -> base = base' /\ u = u'.
Proof.
  intros Hg p base u base' u' H. revert base' u'. induction H as [|p base u s q c Hl IH Hs Hc]; intros base' u' H'.
  - remember (@nil seg) as p0 eqn:Ep. destruct H' as [|p' b1 u1 s' q' c' Hl' Hs' Hc']; [auto|].
    apply children_nonempty in Hc'. apply (f_equal (@length seg)) in Ep. rewrite app_length in Ep. cbn in Ep. lia.
  - remember (p ++ q) as pq eqn:Ep. destruct H' as [|p' b1 u1 s' q' c' Hl' Hs' Hc'].
    + apply children_nonempty in Hc. apply (f_equal (@length seg)) in Ep. rewrite app_length in Ep. cbn in Ep. lia.
    + assert (Gs : good_node s).
      { destruct (Lex_location root d7 b0 Hg _ _ _ Hl) as (s0 & Hs0 & Hin). rewrite Hs in Hs0. injection Hs0 as <-. eapply Hg; eauto. }
      assert (Gs' : good_node s').
      { destruct (Lex_location root d7 b0 Hg _ _ _ Hl') as (s0 & Hs0 & Hin). rewrite Hs' in Hs0. injection Hs0 as <-. eapply Hg; eauto. }
      destruct (parent_unique root p' s' q' c' p s q c Gs' Gs Hs' Hc' Hs Hc Ep) as (-> & -> & ->).
      destruct (IH _ _ Hl') as [-> ->]. auto.
Qed.
