(** C03: the tables resolveURIs builds are the lexical ones.  [Lex root d7 b0 p base u]: the
    subschema at location p of the document has lexical base (enclosing resource root) [base],
    whose URI is [u] - by the rule of the specification: a subschema that declares a
    (non-fragment) $id starts a resource whose URI is that $id resolved against the URI of the
    enclosing resource; every other subschema belongs to its parent's resource. *)
From Coq Require Import List NArith ZArith QArith Bool Lia.
From JS Require Import Str StrFacts Lit Json Res GoValue Schema Basic Pointer PointerFacts ChildFacts Env Uri Resolve ResolveFacts Addressable ResolveTotal.
Import ListNotations.
Open Scope list_scope.
Local Open Scope nat_scope.

Section Lex.
  Variable root : schema.
  Variable d7 : bool.
  Variable b0 : uri.          (* the retrieval / base URI of the document *)

  (* the $id reference of a subschema that starts a resource *)
  Definition establishes (c : schema) : option uri :=
    if nonempty (s_id c) && negb (d7 && nonempty (s_ref c)) then
      match parse_uri (s_id c) with
      | POk idURI => if nonempty (u_frag idURI) then None else Some idURI
      | _ => None
      end
    else None.
  Definition nb (c : schema) (p base : list seg) : list seg := match establishes c with Some _ => p | None => base end.
  Definition nu (c : schema) (u : uri) : uri := match establishes c with Some id => resolve_reference u id | None => u end.

  Inductive Lex : list seg -> list seg -> uri -> Prop :=
  | Lex_root : Lex [] [] (nu root b0)
  | Lex_step p base u s q c :
      Lex p base u -> subschema_at root p = Some s -> In (q, c) (children s) ->
      Lex (p ++ q) (nb c (p ++ q) base) (nu c u).

  (* an anchor declaration *)
  Definition declares (s : schema) (name : str) (dyn : bool) : Prop :=
    name <> [] /\
    if d7 then dyn = false /\ name = trim_hash (s_id s) /\ nonempty (s_id s) = true /\ nonempty (s_ref s) = false
    else (dyn = false /\ name = s_anchor s) \/ (dyn = true /\ name = s_dynamicAnchor s).

  (* [stale]: the location whose entry in the URI table is still the one it was created with *)
  Definition Tables (stale : option (list seg)) (di : docinfo) : Prop :=
    (forall q b, In (q, b) (di_base di) -> exists u, Lex q b u) /\
    (forall b u, lookup_path b (di_uri di) = Some u -> Some b <> stale -> Lex b b u) /\
    (forall us q, In (us, q) (di_uris di) -> (q = [] /\ us = uri_string b0) \/ exists u, Lex q q u /\ us = uri_string u) /\
    (forall b nm t dyn, In (b, (nm, (t, dyn))) (di_anchors di) -> exists s u, Lex t b u /\ subschema_at root t = Some s /\ declares s nm dyn).

  Lemma path_eqb_len a : forall b, path_eqb a b = true -> length a = length b.
  Proof. intros b H. apply path_eqb_eq in H. now subst. Qed.

  Lemma lookup_path_extra {A} b (extra old : list (list seg * A)) L :
    Forall (fun kv => L < length (fst kv)) extra -> length b <= L -> lookup_path b (extra ++ old) = lookup_path b old.
  Proof.
    intros HF Hb. induction HF as [|[k v] r Hk _ IH]; [reflexivity|]. cbn [app lookup_path]. cbn [fst] in Hk.
    destruct (path_eqb b k) eqn:E; [apply path_eqb_len in E; lia|exact IH].
  Qed.

  Lemma Tables_setAnchor st di base name p dyn s u :
    Tables st di -> Lex p base u -> subschema_at root p = Some s -> (name <> [] -> declares s name dyn) ->
    Tables st (setAnchor di base name p dyn).
  Proof.
    intros (TB & TU & TR & TA) Hl Hs Hd. unfold setAnchor. destruct name as [|c0 nm]; [repeat split; assumption|].
    destruct (is_some _); [repeat split; assumption|].
    split; [exact TB|]. split; [exact TU|]. split; [exact TR|]. cbn [di_anchors].
    intros b nm0 t dyn0 Hin. apply in_app_or in Hin as [Hin|[[= <- <- <- <-]|[]]]; [eapply TA; eauto|].
    exists s, u. split; [exact Hl|]. split; [exact Hs|]. apply Hd. discriminate.
  Qed.
End Lex.

Lemma children_nonempty s q c : In (q, c) (children s) -> 1 <= length q.
Proof.
  unfold children. intros H.
  repeat (apply in_app_or in H; destruct H as [H|H]);
    match type of H with context [match ?X with _ => _ end] => destruct X end; try contradiction;
    try (destruct H as [[= <- <-]|[]]; cbn; lia);
    try (apply In_idx_children in H as (j & -> & _); cbn; lia);
    try (unfold map_children in H; apply in_map_iff in H as (kc & [= <- <-] & _); cbn; lia).
Qed.

Section Walk.
  Variable root : schema.
  Variable d7 : bool.
  Variable b0 : uri.
  Notation Lex := (Lex root d7 b0).
  Notation Tables := (Tables root d7 b0).

  Definition lex_post (di di' : docinfo) (p : list seg) : Prop :=
    Tables None di' /\ di_draft7 di' = di_draft7 di /\
    exists extra, di_uri di' = extra ++ di_uri di /\ Forall (fun kv : list seg * uri => length p <= length (fst kv)) extra.

  Lemma setAnchor_post di base name p dyn : di_uri (setAnchor di base name p dyn) = di_uri di /\ di_draft7 (setAnchor di base name p dyn) = di_draft7 di.
  Proof. unfold setAnchor. destruct name; [split; reflexivity|]. destruct (is_some _); split; reflexivity. Qed.

  Lemma ru_walk_lex : forall n di p s base u di',
    (forall q x, In (q, x) (all_sub_fuel n p s) -> good_node x) ->
    di_draft7 di = d7 ->
    subschema_at root p = Some s ->
    Lex p (nb d7 s p base) (nu d7 s u) ->
    lookup_path base (di_uri di) = Some u -> length base <= length p ->
    forall stale, (stale = None \/ (stale = Some p /\ p = base)) -> Tables stale di ->
    ru_walk n di p s base = Ok di' -> lex_post di di' p.
  Proof.
    induction n as [|n IH]; intros di p s base u di' Hgood Hd7 Hat Hlex Hbu Hlen stale Hst Ht Hw; [discriminate|].
    assert (Hgs : good_node s) by (apply (Hgood p s); cbn [all_sub_fuel]; now left).
    change (ru_walk (S n) di p s base) with
      (step <-
          (if nonempty (s_id s) && negb (di_draft7 di && nonempty (s_ref s)) then
             match parse_uri (s_id s) with
             | POk idURI =>
                 if negb (di_draft7 di) && nonempty (u_frag idURI) then Err
                 else if di_draft7 di && nonempty (u_frag idURI) then
                   Ok (setAnchor di base (trim_hash (s_id s)) p false, base)
                 else
                   match lookup_path base (di_uri di) with
                   | None => Panic
                   | Some bu =>
                       let u := resolve_reference bu idURI in
                       if negb (is_abs u) then Err
                       else Ok (mkDoc (di_root di) (di_draft7 di) ((uri_string u, p) :: di_uris di)
                                      (di_base di) ((p, u) :: di_uri di) (di_anchors di), p)
                   end
             | _ => Err
             end
           else Ok (di, base)) ;;
        let di1 := fst step in
        let base1 := snd step in
        let di2 := mkDoc (di_root di1) (di_draft7 di1) (di_uris di1) ((p, base1) :: di_base di1) (di_uri di1) (di_anchors di1) in
        let di3 := if di_draft7 di2 then di2
                   else setAnchor (setAnchor di2 base1 (s_anchor s) p false) base1 (s_dynamicAnchor s) p true in
        kids_loop n p base1 (children s) di3) in Hw.
    match type of Hw with (step <- ?X ;; _) = _ => destruct X as [[di1 base1]| | |] eqn:Es end; cbn [bind] in Hw; try discriminate.
    (* the step: di1, base1 and the URI of base1 *)
    assert (Hfix : establishes d7 s = None -> Tables None di).
    { intros He. destruct Ht as (TB & TU & TR & TA). split; [exact TB|]. split; [|split; assumption].
      intros b u0 Hl _. destruct Hst as [->|[-> ->]]; [apply TU; [exact Hl|discriminate]|].
      destruct (path_eqb b base) eqn:Eb.
      - apply path_eqb_eq in Eb. subst b. rewrite Hbu in Hl. injection Hl as <-.
        unfold nb, nu in Hlex. rewrite He in Hlex. exact Hlex.
      - apply TU; [exact Hl|]. intros [= ->]. now rewrite path_eqb_refl in Eb. }
    assert (H1 : Tables None di1 /\ di_draft7 di1 = d7 /\ base1 = nb d7 s p base /\
                 lookup_path base1 (di_uri di1) = Some (nu d7 s u) /\
                 (exists extra, di_uri di1 = extra ++ di_uri di /\ Forall (fun kv : list seg * uri => length p <= length (fst kv)) extra)).
    { unfold nb, nu, establishes in Hlex |- *. rewrite Hd7 in Es.
      destruct (nonempty (s_id s) && negb (d7 && nonempty (s_ref s))) eqn:Econd.
      2:{ injection Es as <- <-. split; [apply Hfix; unfold establishes; now rewrite Econd|]. split; [exact Hd7|]. split; [reflexivity|]. split; [exact Hbu|]. exists []. split; [reflexivity|constructor]. }
      destruct (parse_uri (s_id s)) as [idURI| |] eqn:Ep; try discriminate.
      destruct (nonempty (u_frag idURI)) eqn:Ef.
      - (* a fragment: an error in 2020-12, an anchor in draft-07 *)
        destruct d7; cbn [negb andb] in Es; [|discriminate]. injection Es as <- <-.
        destruct (setAnchor_post di base (trim_hash (s_id s)) p false) as [Eu Ed].
        split; [|rewrite Eu, Ed; split; [exact Hd7|split; [reflexivity|split; [exact Hbu|exists []; split; [reflexivity|constructor]]]]].
        eapply Tables_setAnchor; [apply Hfix; unfold establishes; now rewrite Econd, Ep, Ef|exact Hlex|exact Hat|].
        intros Hne. split; [exact Hne|]. cbn.
        apply andb_true_iff in Econd as [Hid Hr]. cbn in Hr. apply negb_true_iff in Hr. repeat split; auto.
      - rewrite andb_false_r in Es. rewrite andb_false_r in Es. rewrite Hbu in Es. cbn zeta in Es.
        destruct (negb (is_abs (resolve_reference u idURI))); [discriminate|]. injection Es as <- <-.
        cbn [di_draft7 di_uri di_base di_uris di_anchors].
        split; [|split; [reflexivity|split; [reflexivity|split; [cbn [lookup_path]; now rewrite path_eqb_refl|]]]].
        + destruct Ht as (TB & TU & TR & TA). split; [|split; [|split]]; cbn [di_base di_uri di_uris di_anchors]; auto.
          * intros b u' Hl _. cbn [lookup_path] in Hl. destruct (path_eqb b p) eqn:Eb.
            -- apply path_eqb_eq in Eb. subst b. injection Hl as <-. exact Hlex.
            -- apply TU; [exact Hl|]. destruct Hst as [->|[-> _]]; [discriminate|]. intros [= ->]. now rewrite path_eqb_refl in Eb.
          * intros us q [[= <- <-]|Hin]; [right; eauto|now apply TR].
        + exists [(p, resolve_reference u idURI)]. split; [reflexivity|]. constructor; [cbn; lia|constructor]. }
    destruct H1 as (Ht1 & Hd1 & Hb1 & Hu1 & extra1 & Ee1 & Hf1).
    cbn [fst snd] in Hw. cbn zeta in Hw.
    set (di2 := mkDoc (di_root di1) (di_draft7 di1) (di_uris di1) ((p, base1) :: di_base di1) (di_uri di1) (di_anchors di1)) in Hw.
    rewrite <- Hb1 in Hlex.
    assert (Ht2 : Tables None di2).
    { destruct Ht1 as (TB & TU & TR & TA). split; [|split; [|split]]; cbn [di2 di_base di_uri di_uris di_anchors]; auto.
      intros q b [[= <- <-]|Hin]; [eauto|now apply TB]. }
    set (di3 := if di_draft7 di2 then di2 else setAnchor (setAnchor di2 base1 (s_anchor s) p false) base1 (s_dynamicAnchor s) p true) in Hw.
    assert (H3 : Tables None di3 /\ di_uri di3 = di_uri di1 /\ di_draft7 di3 = d7).
    { unfold di3. cbn [di2 di_draft7]. rewrite Hd1. destruct d7 eqn:E7; [split; [exact Ht2|split; [reflexivity|exact Hd1]]|].
      destruct (setAnchor_post di2 base1 (s_anchor s) p false) as [Eu1 Ed1].
      destruct (setAnchor_post (setAnchor di2 base1 (s_anchor s) p false) base1 (s_dynamicAnchor s) p true) as [Eu2 Ed2].
      split; [|rewrite Eu2, Ed2, Eu1, Ed1; split; [reflexivity|exact Hd1]].
      eapply Tables_setAnchor; eauto; [eapply Tables_setAnchor; eauto|].
      - intros Hne. split; [exact Hne|]. cbn. left. auto.
      - intros Hne. split; [exact Hne|]. cbn. right. auto. }
    clearbody di3. destruct H3 as (Ht3 & Hu3 & Hd3).
    assert (Hlen1 : length base1 <= length p) by (rewrite Hb1; unfold nb; destruct (establishes d7 s); lia).
    (* the children *)
    assert (Hloop : forall cs dc df,
              (forall q c, In (q, c) cs -> In (q, c) (children s)) ->
              Tables None dc -> di_draft7 dc = d7 -> lookup_path base1 (di_uri dc) = Some (nu d7 s u) ->
              kids_loop n p base1 cs dc = Ok df -> lex_post dc df p).
    { induction cs as [|[q c] r IHr]; intros dc df Hsub Htc Hdc Hbc Hk.
      - cbn in Hk. injection Hk as <-. split; [exact Htc|]. split; [reflexivity|]. exists []. split; [reflexivity|constructor].
      - cbn [kids_loop] in Hk.
        destruct (ru_walk n dc (p ++ q) c base1) as [dc'| | |] eqn:Ew; cbn [bind] in Hk; try discriminate.
        assert (Hc : In (q, c) (children s)) by (apply Hsub; now left).
        pose proof (children_nonempty s q c Hc) as Hq.
        assert (Hgc : forall q0 x, In (q0, x) (all_sub_fuel n (p ++ q) c) -> good_node x).
        { intros q0 x Hin. apply (Hgood q0 x). cbn [all_sub_fuel]. right. apply in_flat_map. exists (q, c). split; [exact Hc|exact Hin]. }
        destruct (IH dc (p ++ q) c base1 (nu d7 s u) dc' Hgc Hdc) with (stale := @None (list seg)) as (Htc' & Hdc' & ex & Eex & Hfex); auto.
        + eapply subschema_at_app; [exact Hat|]. destruct Hgs as [Hb Hm]. now apply children_subschema.
        + now apply (Lex_step root d7 b0 p base1 (nu d7 s u) s q c).
        + rewrite app_length. lia.
        + assert (Hbc' : lookup_path base1 (di_uri dc') = Some (nu d7 s u)).
          { rewrite Eex. rewrite (lookup_path_extra base1 ex (di_uri dc) (length p)); [exact Hbc| |exact Hlen1].
            eapply Forall_impl; [|exact Hfex]. intros kv Hkv. cbn beta in Hkv. rewrite app_length in Hkv. lia. }
          destruct (IHr dc' df (fun q0 c0 Hin => Hsub q0 c0 (or_intror Hin)) Htc' (eq_trans Hdc' Hdc) Hbc' Hk) as (Htf & Hdf & ex2 & Eex2 & Hfex2).
          split; [exact Htf|]. split; [congruence|]. exists (ex2 ++ ex). split; [now rewrite Eex2, Eex, app_assoc|].
          apply Forall_app. split; [exact Hfex2|]. eapply Forall_impl; [|exact Hfex]. intros kv Hkv. cbn beta in Hkv. rewrite app_length in Hkv. lia. }
    rewrite <- Hu3 in Hu1.
    destruct (Hloop (children s) di3 di' (fun q c H => H) Ht3 Hd3 Hu1 Hw) as (Htf & Hdf & ex & Eex & Hfex).
    split; [exact Htf|]. split; [congruence|]. exists (ex ++ extra1). split; [now rewrite Eex, Hu3, Ee1, app_assoc|].
    apply Forall_app. split; assumption.
  Qed.
End Walk.

(** resolveURIs: every table of a resolved document is lexical *)
Theorem resolveURIs_lex root d7 b0 di :
  (forall p x, In (p, x) (all_sub root) -> good_node x) ->
  resolveURIs root d7 b0 = Ok di -> Tables root d7 b0 None di /\ di_root di = root /\ di_draft7 di = d7.
Proof.
  intros Hgood H. pose proof (resolveURIs_root _ _ _ _ H) as Hroot. unfold resolveURIs in H.
  assert (Hl0 : Lex root d7 b0 [] (nb d7 root [] []) (nu d7 root b0)).
  { assert (E : nb d7 root [] [] = []) by (unfold nb; destruct (establishes d7 root); reflexivity). rewrite E. constructor. }
  destruct (ru_walk_lex root d7 b0 (size root) (mkDoc root d7 [(uri_string b0, [])] [] [([], b0)] []) [] root [] b0 di Hgood eq_refl eq_refl
              Hl0 eq_refl (le_n _) (Some []) (or_intror (conj eq_refl eq_refl))) as (Ht & Hd & _); [|exact H|].
  - split; cbn [di_base di_uri di_uris di_anchors]; [intros q b []|]. split; [|split].
    + intros b u Hl Hne. cbn [lookup_path] in Hl. destruct (path_eqb b []) eqn:Eb; [|discriminate].
      apply path_eqb_eq in Eb. subst b. now contradiction Hne.
    + intros us q [[= <- <-]|[]]. left. split; reflexivity.
    + intros b nm t dyn [].
  - split; [exact Ht|]. split; [exact Hroot|exact Hd].
Qed.

(** what a reference designates inside its own document: it is resolved against the URI of the
    resource that lexically encloses it; the non-fragment part selects a resource of the document
    by its URI; an anchor fragment selects a subschema that declares that anchor lexically inside
    the selected resource; a pointer fragment is walked from the root of the selected resource *)
Theorem resolveRef_designates loader rec di d st p ref st' d' t dynf root d7 b0 :
  Tables root d7 b0 None di -> di_root di = root ->
  resolveRef loader rec di d st p ref = Ok (st', ((d', t), dynf)) ->
  exists ref0 base bu,
    parse_uri ref = POk ref0 /\
    (exists u, Lex root d7 b0 p base u) /\ Lex root d7 b0 base base bu /\
    let refURI := resolve_reference bu ref0 in
    match lookup (uri_string (drop_frag refURI)) (di_uris di) with
    | Some q =>
        d' = d /\
        ((q = [] /\ uri_string (drop_frag refURI) = uri_string b0) \/
         exists uq, Lex root d7 b0 q q uq /\ uri_string (drop_frag refURI) = uri_string uq) /\
        (nth_error (r_docs st') d = Some di ->
         match u_frag refURI with
         | [] => t = q
         | c :: _ =>
             if negb (N.eqb c 47) then
               exists dyn sa ua, Lex root d7 b0 t q ua /\ subschema_at root t = Some sa /\ declares d7 sa (u_frag refURI) dyn
             else exists rs r, subschema_at root q = Some rs /\ dereferenceJSONPointer rs (u_frag refURI) = Ok r /\ t = q ++ fst r
         end)
    | None => True   (* another document: the cache of loaded documents, or the Loader *)
    end.
Proof.
  intros (TB & TU & TR & TA) Hroot H. unfold resolveRef in H.
  destruct (parse_uri ref) as [ref0| |]; try discriminate.
  destruct (lookup_path p (di_base di)) as [base|] eqn:Eb; [|discriminate].
  destruct (lookup_path base (di_uri di)) as [bu|] eqn:Eu; [|discriminate]. cbn zeta in H.
  exists ref0, base, bu. split; [reflexivity|]. split; [apply (TB p base); eapply lookup_path_In; eauto|].
  split; [apply TU; [exact Eu|discriminate]|]. cbn zeta.
  set (refURI := resolve_reference bu ref0) in *.
  destruct (lookup (uri_string (drop_frag refURI)) (di_uris di)) as [q|] eqn:Eq; [|exact I].
  cbn [bind fst snd] in H.
  destruct (nth_error (r_docs st) d) as [di0|] eqn:Ed; [|discriminate].
  assert (Hq := TR _ _ (lookup_In _ _ _ Eq)).
  destruct (u_frag refURI) as [|c fr] eqn:Ef.
  - injection H as <- <- <- _. split; [reflexivity|]. split; [exact Hq|]. intros _. reflexivity.
  - destruct (negb (N.eqb c 47)) eqn:Ec.
    + destruct (lookup (c :: fr) (anchors_of di0 q)) as [[t0 dyn]|] eqn:Ea; [|discriminate].
      injection H as <- <- <- _. split; [reflexivity|]. split; [exact Hq|]. intros Hd. rewrite Hd in Ed. injection Ed as <-.
      apply lookup_In in Ea. unfold anchors_of in Ea. apply in_map_iff in Ea as ([b0' [nm [t1 dyn1]]] & [= <- <- <-] & Hin).
      apply filter_In in Hin as [Hin Hb]. cbn [fst] in Hb. apply path_eqb_eq in Hb. subst b0'.
      destruct (TA _ _ _ _ Hin) as (sa & ua & Hl & Hs & Hdcl). exists dyn1, sa, ua. auto.
    + destruct (subschema_at (di_root di0) q) as [rs|] eqn:Es; [|discriminate].
      destruct (dereferenceJSONPointer rs (c :: fr)) as [r| | |] eqn:Ep; cbn [bind] in H; try discriminate.
      injection H as <- <- <- _. split; [reflexivity|]. split; [exact Hq|]. intros Hd. rewrite Hd in Ed. injection Ed as <-.
      rewrite Hroot in Es. exists rs, r. auto.
Qed.
