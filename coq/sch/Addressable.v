(** Every subschema of a schema tree is addressable by the JSON Pointer of its location (C17). *)
From Coq Require Import List NArith ZArith QArith Bool Lia.
From JS Require Import Str StrFacts Lit Json Res GoValue Schema Codec Basic Pointer PointerFacts ChildFacts Env Uri Resolve.
Import ListNotations.
Open Scope list_scope.

Definition good_node (s : schema) : Prop := basicChecks s = true /\ maps_nodup s.

Lemma all_sub_fuel_locations : forall fuel s0 pre q c,
  (forall p x, In (p, x) (all_sub_fuel fuel pre s0) -> good_node x) ->
  In (q, c) (all_sub_fuel fuel pre s0) ->
  exists r, q = pre ++ r /\ subschema_at s0 r = Some c.
Proof.
  induction fuel as [|n IH]; intros s0 pre q c Hgood Hin; [contradiction|].
  cbn [all_sub_fuel] in Hin. destruct Hin as [[= <- <-]|Hin].
  - exists []. rewrite app_nil_r. split; reflexivity.
  - apply in_flat_map in Hin as ([p1 c1] & Hc1 & Hin). cbn [fst snd] in Hin.
    assert (Hg0 : good_node s0) by (apply (Hgood pre s0); cbn [all_sub_fuel]; now left).
    destruct Hg0 as [Hb Hm].
    pose proof (children_subschema s0 Hb Hm p1 c1 Hc1) as H1.
    destruct (IH c1 (pre ++ p1) q c) as (r & -> & Hr).
    + intros p x Hx. apply (Hgood p x). cbn [all_sub_fuel]. right. apply in_flat_map. exists (p1, c1). split; [exact Hc1|exact Hx].
    + exact Hin.
    + exists (p1 ++ r). split; [now rewrite app_assoc|]. eapply subschema_at_app; eauto.
Qed.

Theorem all_sub_locations s q c :
  (forall p x, In (p, x) (all_sub s) -> good_node x) ->
  In (q, c) (all_sub s) -> subschema_at s q = Some c.
Proof.
  intros Hg Hin. destruct (all_sub_fuel_locations (size s) s [] q c Hg Hin) as (r & -> & Hr). exact Hr.
Qed.

(** C17_addressable: '#' + the RFC 6901 pointer of a subschema's location resolves to
    precisely that subschema, for every keyword, index and property-name string *)
Theorem addressable s q c :
  (forall p x, In (p, x) (all_sub s) -> good_node x) ->
  In (q, c) (all_sub s) ->
  dereferenceJSONPointer s (render (map token q)) = Ok (q, c).
Proof. intros Hg Hin. apply dereference_complete. now apply all_sub_locations. Qed.
