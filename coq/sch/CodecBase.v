(** Pieces of encoding/json that schema.go's codec relies on, over [jdoc].
    The text layer (lexing, number and string spelling) is outside the model. *)
From Coq Require Import List NArith ZArith QArith Bool.
From JS Require Import Str Lit Json Res GoValue Schema.
Import ListNotations.
Open Scope list_scope.

(** value of a document, forgetting spelling; last duplicate member wins (Go map) *)
Fixpoint doc_value_fuel (n : nat) (d : jdoc) : json :=
  match n with
  | O => JNull
  | S n' =>
      match d with
      | DNull => JNull
      | DBool b => JBool b
      | DNum _ q => JNum q
      | DStr s => JStr s
      | DArr l => JArr (map (doc_value_fuel n') l)
      | DObj m =>
          JObj ((fix dedup (m : list (str * jdoc)) : list (str * json) :=
                   match m with
                   | [] => []
                   | (k, v) :: r =>
                       if existsb (fun kv => str_eqb k (fst kv)) r then dedup r
                       else (k, doc_value_fuel n' v) :: dedup r
                   end) m)
      end
  end.
Definition doc_value (d : jdoc) : json := doc_value_fuel (jdoc_size d) d.

(** decoding into [any] *)
Definition decode_any (d : jdoc) : gv := strip (canon (doc_value d)).
(* elements of a []any and values of a map[string]any are interface values *)
Definition decode_any_iface (d : jdoc) : gv := canon (doc_value d).

(** encoding/json's case-insensitive field match (the part that can reach an ASCII name) *)
Definition fold_char (c : N) : N :=
  if (N.leb 97 c && N.leb c 122)%bool then (c - 32)%N
  else if N.eqb c 383 then 83%N       (* U+017F LATIN SMALL LETTER LONG S *)
  else if N.eqb c 8490 then 75%N      (* U+212A KELVIN SIGN *)
  else c.
Definition fold_name (s : str) : str := map fold_char s.

(** scalar decoders: Some r = the member is consumed with result r *)
Definition dec_str (d : jdoc) (old : str) : res str :=
  match d with DStr s => Ok s | DNull => Ok old | _ => Err end.
Definition dec_bool (d : jdoc) (old : bool) : res bool :=
  match d with DBool b => Ok b | DNull => Ok old | _ => Err end.
Definition dec_f64p (d : jdoc) : res (option Q) :=
  match d with DNum _ q => Ok (Some q) | DNull => Ok None | _ => Err end.

Definition int32_min : Z := (-2147483648)%Z.
Definition int32_max : Z := 2147483647%Z.
Definition q_to_Z (q : Q) : Z := (Qnum q / Zpos (Qden q))%Z.

(* integer.UnmarshalJSON behind a *integer field *)
Definition dec_intp (d : jdoc) : res (option Z) :=
  match d with
  | DNull => Ok None
  | DNum NFExp _ => Err
  | DNum _ q =>
      if q_is_int q then
        let z := q_to_Z q in
        if (Z.leb int32_min z && Z.leb z int32_max)%bool then Ok (Some z) else Err
      else Err
  | _ => Err
  end.

Fixpoint dec_str_list (l : list jdoc) : res (list str) :=
  match l with
  | [] => Ok []
  | DStr s :: r => t <- dec_str_list r ;; Ok (s :: t)
  | DNull :: r => t <- dec_str_list r ;; Ok ([] :: t)
  | _ => Err
  end.
Definition dec_strs (d : jdoc) : res (option (list str)) :=
  match d with
  | DArr l => t <- dec_str_list l ;; Ok (Some t)
  | DNull => Ok None
  | _ => Err
  end.

Definition dec_anys (d : jdoc) : res (option (list gv)) :=
  match d with
  | DArr l => Ok (Some (map decode_any_iface l))
  | DNull => Ok None
  | _ => Err
  end.

(* later duplicates of a key replace the earlier entry (Go map assignment) *)
Definition map_set {A} (k : str) (v : A) (m : list (str * A)) : list (str * A) :=
  if existsb (fun kv => str_eqb k (fst kv)) m
  then map (fun kv => if str_eqb k (fst kv) then (k, v) else kv) m
  else m ++ [(k, v)].

Fixpoint dec_mapbool_members (m : list (str * jdoc)) (acc : list (str * bool)) : res (list (str * bool)) :=
  match m with
  | [] => Ok acc
  | (k, DBool b) :: r => dec_mapbool_members r (map_set k b acc)
  | (k, DNull) :: r =>
      dec_mapbool_members r (map_set k (match lookup k acc with Some b => b | None => false end) acc)
  | _ => Err
  end.
Definition dec_mapbool (d : jdoc) : res (option (list (str * bool))) :=
  match d with
  | DObj m => t <- dec_mapbool_members m [] ;; Ok (Some t)
  | DNull => Ok None
  | _ => Err
  end.

Fixpoint dec_mapstrs_members (m : list (str * jdoc)) (acc : list (str * list str)) : res (list (str * list str)) :=
  match m with
  | [] => Ok acc
  | (k, DArr l) :: r => t <- dec_str_list l ;; dec_mapstrs_members r (map_set k t acc)
  | _ => Err   (* a null value would be a nil slice: not modelled, not generated *)
  end.
Definition dec_mapstrs (d : jdoc) : res (option (list (str * list str))) :=
  match d with
  | DObj m => t <- dec_mapstrs_members m [] ;; Ok (Some t)
  | DNull => Ok None
  | _ => Err
  end.

(** encoding (json.Marshal) of the Go values held by Enum, Const, Examples, Extra *)
Fixpoint enc_gv (g : gv) : jdoc :=
  match g with
  | GNil => DNull
  | GBool b => DBool b
  | GInt z => DNum NFInt (inject_Z z)
  | GFloat q => DNum (if q_is_int q then NFInt else NFFrac) q
  | GJNum q => DNum (if q_is_int q then NFInt else NFFrac) q
  | GStr s => DStr s
  | GArr l => DArr (map enc_gv l)
  | GMap m => DObj (sort_by_key (map (fun kv => (fst kv, enc_gv (snd kv))) m))
  | GInd v => enc_gv v
  end.

Definition enc_strs (l : list str) : jdoc := DArr (map DStr l).
