(** json_pointer.go *)
From Coq Require Import List NArith ZArith Bool.
From JS Require Import Str Lit Res Schema.
Import ListNotations.
Open Scope list_scope.

Definition c_tilde : N := 126.  Definition c_slash : N := 47.
Definition c_0 : N := 48.       Definition c_1 : N := 49.

(** escapeJSONPointerSegment *)
Fixpoint escape_seg (s : str) : str :=
  match s with
  | [] => []
  | c :: r =>
      if N.eqb c c_tilde then c_tilde :: c_0 :: escape_seg r
      else if N.eqb c c_slash then c_tilde :: c_1 :: escape_seg r
      else c :: escape_seg r
  end.

(** every "~" is followed by "0" or "1" *)
Fixpoint valid_escapes (s : str) : bool :=
  match s with
  | [] => true
  | c :: r =>
      if N.eqb c c_tilde then
        match r with
        | d :: r' => (N.eqb d c_0 || N.eqb d c_1) && valid_escapes r'
        | [] => false
        end
      else valid_escapes r
  end.

(** unescapeJSONPointerSegment: one left-to-right pass *)
Fixpoint unescape_seg (s : str) : str :=
  match s with
  | [] => []
  | c :: r =>
      if N.eqb c c_tilde then
        match r with
        | d :: r' =>
            if N.eqb d c_0 then c_tilde :: unescape_seg r'
            else if N.eqb d c_1 then c_slash :: unescape_seg r'
            else c :: unescape_seg r
        | [] => [c]
        end
      else c :: unescape_seg r
  end.

(** strings.Split(s, "/") *)
Fixpoint split_slash (s : str) (cur : str) : list str :=
  match s with
  | [] => [rev cur]
  | c :: r => if N.eqb c c_slash then rev cur :: split_slash r [] else split_slash r (c :: cur)
  end.

Definition parseJSONPointer (p : str) : res (list str) :=
  match p with
  | [] => Ok []
  | c :: r =>
      if N.eqb c c_slash then
        let segs := split_slash r [] in
        if forallb valid_escapes segs then Ok (map unescape_seg segs) else Err
      else Err
  end.

(** array index segment: digits only, no sign, no leading zero *)
Definition is_digit (c : N) : bool := N.leb 48 c && N.leb c 57.
Definition index_N (s : str) : option N :=
  match s with
  | [] => None
  | c :: r =>
      if negb (forallb is_digit s) then None
      else if N.eqb c c_0 && negb (match r with [] => true | _ => false end) then None
      else Some (fold_left (fun a d => a * 10 + (d - 48))%N s 0%N)
  end.
Definition parse_index (s : str) : option nat := option_map N.to_nat (index_N s).
(* the index when it is below [len]: what the walk needs, without ever building a unary
   number larger than the list (an index of 2^64 is an ordinary, failing, input) *)
Definition index_below (s : str) (len : nat) : option nat :=
  match index_N s with
  | Some n => if N.ltb n (N.of_nat len) then Some (N.to_nat n) else None
  | None => None
  end.

(** dereferenceJSONPointer, returning the location of the target as well *)
Fixpoint deref_walk (v : pval) (segs : list str) (path : list seg) : res (list seg * schema) :=
  match segs with
  | [] =>
      match v with
      | PSchema s => Ok (path, s)
      | _ => Err
      end
  | sg :: r =>
      match v with
      | PSchema s =>
          match lookup_field sg s with
          | Some v' => deref_walk v' r (path ++ [SKey sg])
          | None => Err
          end
      | PNilSchema => Err
      | PList l =>
          match index_below sg (length l) with
          | Some n =>
              match nth_error l n with
              | Some c => deref_walk (PSchema c) r (path ++ [SIdx n])
              | None => Err
              end
          | None => Err
          end
      | PMap m =>
          match lookup sg m with
          | Some c => deref_walk (PSchema c) r (path ++ [SKey sg])
          | None => Err
          end
      | POther => Err
      end
  end.

Definition dereferenceJSONPointer (s : schema) (ptr : str) : res (list seg * schema) :=
  segs <- parseJSONPointer ptr ;; deref_walk (PSchema s) segs [].

(** the subschema at a location path (inverse of [children]) *)
Fixpoint subschema_at (s : schema) (p : list seg) {struct p} : option schema :=
  match p with
  | [] => Some s
  | SKey f :: r =>
      match lookup_field f s with
      | Some (PSchema c) => subschema_at c r
      | Some (PList l) =>
          match r with
          | SIdx i :: r' => match nth_error l i with Some c => subschema_at c r' | None => None end
          | _ => None
          end
      | Some (PMap m) =>
          match r with
          | SKey k :: r' => match lookup k m with Some c => subschema_at c r' | None => None end
          | _ => None
          end
      | _ => None
      end
  | SIdx _ :: _ => None
  end.
