(** Facts about MarshalJSON: the order formula for "properties", the duplicate check,
    and independence from Go's map iteration order (C19, part of C14). *)
From Coq Require Import List NArith ZArith QArith Bool Permutation Lia.
From JS Require Import Str StrFacts Lit Json Res GoValue Schema CodecBase Codec Basic.
Import ListNotations.
Open Scope list_scope.

Lemma bind_ok {A B} (r : res A) (f : A -> res B) b : bind r f = Ok b -> exists a, r = Ok a /\ f a = Ok b.
Proof. destruct r; cbn; try discriminate. eauto. Qed.

Section Facts.
  Variable ma : schema -> res jdoc.

  Lemma enc_schm_members_keys m t : enc_schm_members ma m = Ok t -> keys t = keys m.
  Proof.
    revert t; induction m as [|[k c] r IH]; cbn; intros t H.
    - now inversion H.
    - apply bind_ok in H as (d & Hd & H). apply bind_ok in H as (t' & Ht & H). inversion H; subst.
      cbn. f_equal. now apply IH.
  Qed.

  Lemma ordered_keys_sub ps order k : In k (ordered_keys ps order) -> In k ps.
  Proof.
    unfold ordered_keys. rewrite in_app_iff. intros [H|H].
    - apply filter_In in H as [_ H]. now apply mem_str_In.
    - eapply Permutation_in in H; [|apply Permutation_sym, sort_strs_perm].
      now apply filter_In in H as [H _].
  Qed.

  Lemma flat_map_lookup_keys {A} (props : list (str * A)) ks :
    (forall k, In k ks -> In k (keys props)) ->
    keys (flat_map (fun k => match lookup k props with Some c => [(k, c)] | None => [] end) ks) = ks.
  Proof.
    induction ks as [|k r IH]; cbn; intros H; [reflexivity|].
    destruct (lookup k props) eqn:E.
    - cbn. f_equal. apply IH. intros; apply H; now right.
    - apply lookup_None in E. exfalso. apply E, H. now left.
  Qed.

  (** the keys of the marshalled "properties" object are exactly the formula *)
  Lemma enc_props_keys props order d :
    enc_props ma props order = Ok d ->
    exists t, d = DObj t /\ keys t = ordered_keys (keys props) order.
  Proof.
    unfold enc_props. intros H. apply bind_ok in H as (t & Ht & H). inversion H; subst.
    exists t. split; [reflexivity|]. apply enc_schm_members_keys in Ht. rewrite Ht.
    apply flat_map_lookup_keys. intros k. apply ordered_keys_sub.
  Qed.

  (** ... and the values are the marshalled subschemas *)
  Lemma enc_props_values props order t :
    enc_props ma props order = Ok (DObj t) ->
    forall k d, In (k, d) t -> exists c, lookup k props = Some c /\ ma c = Ok d.
  Proof.
    unfold enc_props. intros H. apply bind_ok in H as (t' & Ht & H). inversion H; subst. clear H.
    revert t Ht. generalize (ordered_keys (keys props) order) as ks.
    induction ks as [|k0 r IH]; cbn; intros t Ht k d Hin.
    - inversion Ht; subst. contradiction.
    - destruct (lookup k0 props) eqn:E; cbn in Ht.
      + apply bind_ok in Ht as (d0 & Hd0 & Ht). apply bind_ok in Ht as (t0 & Ht0 & Ht). inversion Ht; subst.
        destruct Hin as [Hin|Hin]; [inversion Hin; subst; eauto|]. eapply IH; eauto.
      + eapply IH; eauto.
  Qed.
End Facts.

Lemma lookup_app_some {A} k (m e : list (str * A)) v : lookup k m = Some v -> lookup k (m ++ e) = Some v.
Proof.
  induction m as [|[k' v'] r IH]; cbn [lookup app]; [discriminate|].
  destruct (str_eqb k k'); auto.
Qed.

Definition props_name : str := lit "properties"%lit.
Definition type_name : str := lit "type"%lit.

Lemma marshal_members_properties ma s ms props :
  marshal_members ma s = Ok ms -> s_properties s = Some props ->
  exists d, enc_props ma props (match s_propertyOrder s with Some o => o | None => [] end) = Ok d /\
            lookup props_name ms = Some d.
Proof.
  unfold marshal_members. intros H Hp.
  apply bind_ok in H as (mp & Hmp & H). apply bind_ok in H as (md & Hmd & H).
  apply bind_ok in H as (mi & Hmi & H). apply bind_ok in H as (me & Hme & H). apply bind_ok in H as (mr & Hmr & H). inversion H; subst. clear H.
  unfold marshal_props in Hmp. rewrite Hp in Hmp. apply bind_ok in Hmp as (d & Hd & Hmp). inversion Hmp; subst.
  exists d. split; [exact Hd|].
  unfold marshal_type. destruct (s_type s) as [|c t]; [destruct (s_types s)|]; cbn; reflexivity.
Qed.

(** C19_order *)
Theorem marshal_properties_order s d props :
  marshal s = Ok d -> s_properties s = Some props ->
  exists ms t,
    d = DObj ms /\ lookup props_name ms = Some (DObj t) /\
    keys t = filter (fun n => mem_str n (keys props)) (match s_propertyOrder s with Some o => o | None => [] end)
             ++ sort_strs (filter (fun n => negb (mem_str n (filter (fun n => mem_str n (keys props))
                                                        (match s_propertyOrder s with Some o => o | None => [] end))))
                                  (keys props)).
Proof.
  unfold marshal. destruct (size s) eqn:Esz; [destruct s; cbn in Esz; discriminate|]. cbn [marshal_fuel].
  unfold marshal_schema. intros H Hp.
  destruct (basicChecks s); cbn in H; [|discriminate].
  destruct (existsb _ _); [discriminate|].
  apply bind_ok in H as (ms & Hms & H).
  destruct (marshal_members_properties _ _ _ _ Hms Hp) as (dp & Hdp & Hl).
  destruct (enc_props_keys _ _ _ _ Hdp) as (t & -> & Hk).
  set (extra := sort_by_key _) in H.
  assert (Hl2 : lookup props_name (ms ++ extra) = Some (DObj t)).
  { now apply lookup_app_some. }
  exists (ms ++ extra), t.
  assert (Hd : d = DObj (ms ++ extra)).
  { destruct (ms ++ extra) as [|[k v] r] eqn:E; [cbn [lookup] in Hl2; discriminate|].
    destruct v as [|[|]| | | |]; destruct r; try (now inversion H).
    all: cbn [lookup] in Hl2; destruct (str_eqb props_name k); [inversion Hl2|discriminate]. }
  subst d. repeat split; auto.
Qed.

(** C19_dup: a PropertyOrder with a duplicate entry is rejected *)
Theorem marshal_duplicate_order s order :
  s_propertyOrder s = Some order -> ~ NoDup order -> marshal s = Err.
Proof.
  intros Ho Hd. unfold marshal. destruct (size s) eqn:Esz; [destruct s; cbn in Esz; discriminate|]. cbn [marshal_fuel].
  unfold marshal_schema.
  assert (basicChecks s = false) as ->; [|reflexivity].
  unfold basicChecks. rewrite Ho.
  destruct (nodup_strs order) eqn:E; [apply nodup_strs_NoDup in E; contradiction|].
  now rewrite !andb_false_r, ?andb_false_l.
Qed.

(** C19_deterministic, per output site: every map-typed field is written through
    [sort_by_key] or through the order formula, both functions of the key/value set. *)
Lemma ordered_keys_perm ps ps' order : Permutation ps ps' -> ordered_keys ps order = ordered_keys ps' order.
Proof.
  intros HP. unfold ordered_keys.
  assert (E : filter (fun n => mem_str n ps) order = filter (fun n => mem_str n ps') order).
  { apply filter_ext. intros; now apply mem_str_perm. }
  rewrite E. f_equal. apply sort_strs_perm_eq. now apply filter_perm.
Qed.

Lemma enc_props_perm ma props props' order :
  NoDup (keys props) -> Permutation props props' -> enc_props ma props order = enc_props ma props' order.
Proof.
  intros Hnd HP. unfold enc_props.
  rewrite (ordered_keys_perm (keys props) (keys props') order) by (now apply Permutation_map).
  f_equal. f_equal. apply flat_map_ext. intros k. now rewrite (lookup_perm k props props').
Qed.

Lemma enc_schm_perm ma m m' : NoDup (keys m) -> Permutation m m' -> enc_schm ma m = enc_schm ma m'.
Proof. intros Hnd HP. unfold enc_schm. now rewrite (sort_by_key_perm_eq m m'). Qed.

Lemma enc_gv_map_perm m m' : NoDup (keys m) -> Permutation m m' -> enc_gv (GMap m) = enc_gv (GMap m').
Proof.
  intros Hnd HP. cbn [enc_gv]. f_equal. apply sort_by_key_perm_eq.
  - unfold keys in *. rewrite map_map. cbn. exact Hnd.
  - now apply Permutation_map.
Qed.

(** root-level congruence for the properties map *)
Theorem marshal_properties_perm s props props' :
  s_properties s = Some props -> NoDup (keys props) -> Permutation props props' ->
  marshal_schema (marshal_fuel (size s)) (set_properties (Some props') s) (basicChecks s)
  = marshal_schema (marshal_fuel (size s)) s (basicChecks s).
Proof.
  intros Hp Hnd HP. unfold marshal_schema. destruct (basicChecks s); [|reflexivity]. cbn [negb].
  change (s_extra (set_properties (Some props') s)) with (s_extra s).
  destruct (existsb _ _); [reflexivity|].
  assert (E : marshal_members (marshal_fuel (size s)) (set_properties (Some props') s)
              = marshal_members (marshal_fuel (size s)) s); [|now rewrite E].
  unfold marshal_members.
  assert (E1 : marshal_props (marshal_fuel (size s)) (set_properties (Some props') s)
               = marshal_props (marshal_fuel (size s)) s).
  { unfold marshal_props. rewrite Hp. cbn. now rewrite (enc_props_perm _ props props'). }
  rewrite E1. reflexivity.
Qed.
