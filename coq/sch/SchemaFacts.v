(** Facts about the Schema record used by the refinement proofs. *)
From Coq Require Import List NArith ZArith QArith Bool.
From JS Require Import Str Json GoValue Schema.
Import ListNotations.

Lemma is_zero_schema_eq s : is_zero_schema s = true -> s = empty_schema.
Proof.
  destruct s. unfold is_zero_schema. cbn. intros H.
  repeat match type of H with (_ && _ = true) => apply andb_true_iff in H as [H ?] end.
  repeat match goal with
  | H : (match ?x with _ => _ end) = true |- _ => destruct x; try discriminate H; clear H
  | H : negb ?b = true |- _ => destruct b; try discriminate H; clear H
  end.
  reflexivity.
Qed.
