(** what the field table of the JSON-pointer walk ([lookup_field]) hands out are children of the
    schema: the inverse of [children_subschema]; consequently every location the walk can reach
    ([subschema_at]) is one of the nodes [all_sub] lists. *)
From Coq Require Import List NArith ZArith QArith Bool Lia Permutation.
From JS Require Import Str StrFacts Lit Json Res GoValue Schema Basic Pointer PointerFacts ChildFacts Env Validate NoPanic Resolve.
Import ListNotations.
Open Scope list_scope.

Lemma lookup_field_children f s v : lookup_field f s = Some v ->
  match v with
  | PSchema c => In ([SKey f], c) (children s)
  | PList l => forall i c, nth_error l i = Some c -> In ([SKey f; SIdx i], c) (children s)
  | PMap m => forall k c, In (k, c) m -> In ([SKey f; SKey k], c) (children s)
  | _ => True
  end.
Proof.
  unfold lookup_field.
  repeat match goal with |- context [if str_eqb f ?k then _ else _] => destruct (str_eqb f k) eqn:? end;
    intros H; try discriminate; injection H as <-; try exact I;
    match goal with E : str_eqb f _ = true |- _ => apply str_eqb_eq in E; subst f end;
    unfold opt_schema, opt_schemas, opt_schemam;
    repeat match goal with |- context [match ?o with Some _ => _ | None => _ end] =>
             match o with
             | s_items s => destruct (s_items s) eqn:?E
             | _ => destruct o eqn:?E
             end
           end;
    try exact I;
    try (intros i c Hn; first [destruct i; discriminate | idtac]);
    try (intros k c Hin; first [contradiction | idtac]).
  all: try match goal with E : _ = Some _ |- In ([SKey _], _) _ => find_child ltac:(child_one E) end.
  all: try match goal with E : _ = Some _, Hn : nth_error _ _ = Some _ |- _ => find_child ltac:(child_idx E Hn) end.
  all: try match goal with E : _ = Some _, Hin : In (_, _) _ |- _ => find_child ltac:(child_map E Hin) end.
all: try contradiction. Qed.

From JS Require Import ResolveFacts Addressable ResolveTotal Designate LexFun.

Lemma all_sub_closed root p s q c : In (p, s) (all_sub root) -> In (q, c) (children s) -> In (p ++ q, c) (all_sub root).
Proof. unfold all_sub. intros H Hc. eapply all_sub_fuel_closed; [apply le_n|exact H|exact Hc]. Qed.

Lemma all_sub_root root : In ([], root) (all_sub root).
Proof. unfold all_sub. pose proof (size_pos root). destruct (size root); [lia|]. cbn [all_sub_fuel]. now left. Qed.

(** every location is a listed node *)
Lemma locations_all_sub root : forall n p p0 s c, (length p <= n)%nat ->
  In (p0, s) (all_sub root) -> subschema_at s p = Some c -> In (p0 ++ p, c) (all_sub root).
Proof.
  induction n as [|n IH]; intros p p0 s c Hn Hin H.
  - destruct p; [|cbn in Hn; lia]. cbn in H. injection H as <-. now rewrite app_nil_r.
  - destruct p as [|[f|i] r]; cbn [subschema_at] in H.
    + injection H as <-. now rewrite app_nil_r.
    + cbn [length] in Hn. destruct (lookup_field f s) as [v|] eqn:El; [|discriminate].
      pose proof (lookup_field_children f s v El) as Hch.
      destruct v as [c0| |l|m|]; try discriminate.
      * replace (p0 ++ SKey f :: r) with ((p0 ++ [SKey f]) ++ r) by now rewrite <- app_assoc.
        apply (IH r _ c0); [lia| |exact H]. now apply all_sub_closed with (s := s).
      * destruct r as [|[k|i] r']; try discriminate. destruct (nth_error l i) as [c1|] eqn:En; [|discriminate].
        replace (p0 ++ SKey f :: SIdx i :: r') with ((p0 ++ [SKey f; SIdx i]) ++ r') by now rewrite <- app_assoc.
        apply (IH r' _ c1); [cbn [length] in Hn; lia| |exact H]. apply all_sub_closed with (s := s); [exact Hin|now apply Hch].
      * destruct r as [|[k|i] r']; try discriminate. destruct (lookup k m) as [c1|] eqn:Ek; [|discriminate].
        replace (p0 ++ SKey f :: SKey k :: r') with ((p0 ++ [SKey f; SKey k]) ++ r') by now rewrite <- app_assoc.
        apply (IH r' _ c1); [cbn [length] in Hn; lia| |exact H]. apply all_sub_closed with (s := s); [exact Hin|]. apply Hch. now apply lookup_In.
    + discriminate.
Qed.

Corollary location_listed root p c : subschema_at root p = Some c -> In (p, c) (all_sub root).
Proof. intros H. apply (locations_all_sub root (length p) p [] root c (le_n _) (all_sub_root root) H). Qed.
