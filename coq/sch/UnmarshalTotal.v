(** C10: Unmarshal returns a schema or an error on every document - it never panics and
    the recursion budget (the size of the document) always suffices. *)
From Coq Require Import List NArith ZArith QArith Bool Lia.
From JS Require Import Str StrFacts Lit Json Res GoValue Schema CodecBase Codec.
Import ListNotations.
Open Scope list_scope.
Local Open Scope nat_scope.

Definition okerr {A} (r : res A) : Prop := match r with Ok _ | Err => True | _ => False end.

Lemma okerr_bind {A B} (r : res A) (f : A -> res B) : okerr r -> (forall x, okerr (f x)) -> okerr (bind r f).
Proof. destruct r; cbn; auto. Qed.

Ltac ok := repeat first [exact I | apply okerr_bind; [|intros ?] | progress cbn [okerr]].

Lemma dec_str_ok d old : okerr (dec_str d old). Proof. destruct d; exact I. Qed.
Lemma dec_bool_ok d old : okerr (dec_bool d old). Proof. destruct d; exact I. Qed.
Lemma dec_f64p_ok d : okerr (dec_f64p d). Proof. destruct d; exact I. Qed.
Lemma dec_intp_ok d : okerr (dec_intp d).
Proof. destruct d as [| |nf q| | |]; try exact I. destruct nf; cbn; try exact I; destruct (q_is_int q); try exact I; destruct (_ && _); exact I. Qed.
Lemma dec_str_list_ok l : okerr (dec_str_list l).
Proof. induction l as [|d r IH]; [exact I|]. destruct d; try exact I; cbn [dec_str_list]; apply okerr_bind; auto; intros; exact I. Qed.
Lemma dec_strs_ok d : okerr (dec_strs d).
Proof. destruct d; try exact I. cbn. apply okerr_bind; [apply dec_str_list_ok|intros; exact I]. Qed.
Lemma dec_anys_ok d : okerr (dec_anys d). Proof. destruct d; exact I. Qed.
Lemma dec_mapbool_members_ok m : forall acc, okerr (dec_mapbool_members m acc).
Proof. induction m as [|[k d] r IH]; intros acc; [exact I|]. destruct d; try exact I; cbn [dec_mapbool_members]; apply IH. Qed.
Lemma dec_mapbool_ok d : okerr (dec_mapbool d).
Proof. destruct d; try exact I. cbn. apply okerr_bind; [apply dec_mapbool_members_ok|intros; exact I]. Qed.
Lemma dec_mapstrs_members_ok m : forall acc, okerr (dec_mapstrs_members m acc).
Proof.
  induction m as [|[k d] r IH]; intros acc; [exact I|]. destruct d; try exact I. cbn [dec_mapstrs_members].
  apply okerr_bind; [apply dec_str_list_ok|intros; apply IH].
Qed.
Lemma dec_mapstrs_ok d : okerr (dec_mapstrs d).
Proof. destruct d; try exact I. cbn. apply okerr_bind; [apply dec_mapstrs_members_ok|intros; exact I]. Qed.

Definition sum_sizes (l : list jdoc) : nat := fold_right (fun x a => jdoc_size x + a) 0 l.
Definition sum_msizes (m : list (str * jdoc)) : nat := fold_right (fun kv a => jdoc_size (snd kv) + a) 0 m.

Lemma size_pos d : 1 <= jdoc_size d. Proof. destruct d; cbn; lia. Qed.
Lemma in_sum l x : In x l -> jdoc_size x <= sum_sizes l.
Proof. induction l as [|y r IH]; intros []; subst; cbn; [lia|]. specialize (IH H). unfold sum_sizes in IH. lia. Qed.
Lemma in_msum (m : list (str * jdoc)) kv : In kv m -> jdoc_size (snd kv) <= sum_msizes m.
Proof. induction m as [|y r IH]; intros []; subst; cbn; [lia|]. specialize (IH H). unfold sum_msizes in IH. lia. Qed.

Section Un.
  Variable un : jdoc -> res schema.
  Variable N : nat.
  Hypothesis Hun : forall d, jdoc_size d < N -> okerr (un d).

  Lemma dec_sch_ok d : jdoc_size d < N -> okerr (dec_sch un d).
  Proof. intros H. destruct d; try exact I; cbn [dec_sch]; (apply okerr_bind; [now apply Hun|intros; exact I]). Qed.

  Lemma dec_sch_list_ok l : sum_sizes l < N -> okerr (dec_sch_list un l).
  Proof.
    induction l as [|d r IH]; intros H; [exact I|]. cbn [sum_sizes fold_right] in H. fold (sum_sizes r) in H.
    pose proof (size_pos d).
    destruct d; try exact I; cbn [dec_sch_list];
      (apply okerr_bind; [apply Hun; cbn in *; lia|intros; apply okerr_bind; [apply IH; lia|intros; exact I]]).
  Qed.

  Lemma dec_schs_ok d : jdoc_size d < N -> okerr (dec_schs un d).
  Proof.
    intros H. destruct d; try exact I. cbn [dec_schs]. apply okerr_bind; [|intros; exact I].
    apply dec_sch_list_ok. cbn in H. unfold sum_sizes. lia.
  Qed.

  Lemma dec_schm_members_ok m : forall acc, sum_msizes m < N -> okerr (dec_schm_members un m acc).
  Proof.
    induction m as [|[k d] r IH]; intros acc H; [exact I|]. cbn [sum_msizes fold_right snd] in H. fold (sum_msizes r) in H.
    pose proof (size_pos d).
    destruct d; try exact I; cbn [dec_schm_members];
      (apply okerr_bind; [apply Hun; cbn in *; lia|intros; apply IH; lia]).
  Qed.

  Lemma dec_schm_ok d : jdoc_size d < N -> okerr (dec_schm un d).
  Proof.
    intros H. destruct d; try exact I. cbn [dec_schm]. apply okerr_bind; [|intros; exact I].
    apply dec_schm_members_ok. cbn in H. unfold sum_msizes. lia.
  Qed.

  Lemma apply_member_ok k v st : jdoc_size v < N -> okerr (apply_member un k v st).
  Proof.
    intros H. unfold apply_member. destruct (canon_name k); [|exact I].
    repeat match goal with
    | |- okerr (if ?c then _ else _) => destruct c
    | |- okerr (Ok _) => exact I
    | |- okerr (bind _ _) => apply okerr_bind; [|intros; exact I]
    | |- okerr (dec_str _ _) => apply dec_str_ok
    | |- okerr (dec_bool _ _) => apply dec_bool_ok
    | |- okerr (dec_f64p _) => apply dec_f64p_ok
    | |- okerr (dec_intp _) => apply dec_intp_ok
    | |- okerr (dec_strs _) => apply dec_strs_ok
    | |- okerr (dec_anys _) => apply dec_anys_ok
    | |- okerr (dec_mapbool _) => apply dec_mapbool_ok
    | |- okerr (dec_mapstrs _) => apply dec_mapstrs_ok
    | |- okerr (dec_sch _ _) => apply dec_sch_ok; exact H
    | |- okerr (dec_schs _ _) => apply dec_schs_ok; exact H
    | |- okerr (dec_schm _ _) => apply dec_schm_ok; exact H
    | |- okerr (match v with _ => _ end) => destruct v; try exact I
    end.
  Qed.

  Lemma apply_members_ok m : forall st, sum_msizes m < N -> okerr (apply_members un m st).
  Proof.
    induction m as [|[k v] r IH]; intros st H; [exact I|]. cbn [sum_msizes fold_right snd] in H. fold (sum_msizes r) in H.
    pose proof (size_pos v). cbn [apply_members]. apply okerr_bind; [apply apply_member_ok; lia|intros; apply IH; lia].
  Qed.

  (* what the raw members kept for later (type, items, dependencies, const) may hold *)
  Definition winv (wr : wraw) : Prop :=
    (forall d, w_items wr = Some d -> jdoc_size d < N) /\
    (forall dm, w_deps wr = Some dm -> Forall (fun kv : str * jdoc => jdoc_size (snd kv) < N) dm).

  Lemma map_set_forall {A} (P : str * A -> Prop) k v (m : list (str * A)) :
    P (k, v) -> Forall P m -> Forall P (map_set k v m).
  Proof.
    intros Hv Hm. unfold map_set. destruct (existsb _ m).
    - induction Hm as [|[k' v'] r Hh _ IH]; [constructor|]. cbn [map fst]. constructor; [|exact IH].
      destruct (str_eqb k k'); [exact Hv|exact Hh].
    - apply Forall_app. split; [exact Hm|repeat constructor; exact Hv].
  Qed.

  Lemma apply_member_inv k v st : jdoc_size v < N -> winv (snd st) ->
    match apply_member un k v st with Ok st' => winv (snd st') | _ => True end.
  Proof.
    intros H Hinv. unfold apply_member. destruct (canon_name k); [|exact Hinv].
    repeat match goal with
    | |- context [if ?c then _ else _] => destruct c
    end;
    try (match goal with |- match bind ?r _ with _ => _ end => destruct r; cbn; auto end; fail);
    try exact Hinv.
    - (* items *) destruct Hinv as [H1 H2]. split; [intros d [= <-]; exact H|exact H2].
    - (* dependencies *)
      destruct v as [| | | | |m']; try exact I.
      + destruct Hinv as [H1 H2]. split; [exact H1|intros dm [=]].
      + destruct Hinv as [H1 H2]. split; [exact H1|]. intros dm [= <-].
        assert (Hstart : Forall (fun kv : str * jdoc => jdoc_size (snd kv) < N) (match w_deps (snd st) with Some a => a | None => [] end)).
        { destruct (w_deps (snd st)) as [a|]; [now apply H2|constructor]. }
        revert Hstart. generalize (match w_deps (snd st) with Some a => a | None => [] end) as acc.
        assert (Hm' : forall kv, In kv m' -> jdoc_size (snd kv) < N).
        { intros kv Hin. pose proof (in_msum m' kv Hin). cbn in H. unfold sum_msizes in *. lia. }
        clear -Hm'. induction m' as [|[k0 v0] r IH]; intros acc Hacc; [exact Hacc|]. cbn [fold_left fst snd].
        apply IH; [intros; apply Hm'; now right|]. apply map_set_forall; [apply (Hm' (k0, v0)); now left|exact Hacc].
  Qed.

  Lemma apply_members_inv m : forall st, sum_msizes m < N -> winv (snd st) ->
    match apply_members un m st with Ok st' => winv (snd st') | _ => True end.
  Proof.
    induction m as [|[k v] r IH]; intros st H Hinv; [exact Hinv|]. cbn [sum_msizes fold_right snd] in H. fold (sum_msizes r) in H.
    pose proof (size_pos v). cbn [apply_members].
    pose proof (apply_member_inv k v st ltac:(lia) Hinv) as H1.
    destruct (apply_member un k v st) as [st1| | |]; cbn [bind]; try exact I. apply IH; [lia|exact H1].
  Qed.

  Lemma split_deps_ok m : forall ds dt, Forall (fun kv : str * jdoc => jdoc_size (snd kv) < N) m -> okerr (split_deps un m ds dt).
  Proof.
    induction m as [|[k d] r IH]; intros ds dt Hm; [exact I|]. inversion Hm as [|? ? Hd Hr]; subst. cbn [snd] in Hd.
    destruct d; cbn [split_deps];
      try (apply okerr_bind; [now apply Hun|intros; now apply IH]).
    apply okerr_bind; [apply dec_str_list_ok|intros; now apply IH].
  Qed.

  Lemma unmarshal_object_ok m : sum_msizes m < N -> okerr (unmarshal_object un m).
  Proof.
    intros H. unfold unmarshal_object.
    pose proof (apply_members_ok m (empty_schema, mkW None None None None) H) as Hok.
    pose proof (apply_members_inv m (empty_schema, mkW None None None None) H) as Hinv.
    destruct (apply_members un m (empty_schema, mkW None None None None)) as [st| | |]; cbn [bind] in *; try exact I; try contradiction.
    specialize (Hinv ltac:(split; intros ? [=])). destruct Hinv as [Hit Hdp].
    apply okerr_bind.
    { destruct (w_type (snd st)) as [[| | | |l|]|]; try exact I. apply okerr_bind; [apply dec_str_list_ok|intros; exact I]. }
    intros s1. apply okerr_bind.
    { destruct (w_items (snd st)) as [d|] eqn:Ei; [|exact I]. specialize (Hit d eq_refl).
      destruct d; try (apply okerr_bind; [now apply Hun|intros; exact I]).
      apply okerr_bind; [|intros; exact I]. apply dec_sch_list_ok. cbn in Hit. unfold sum_sizes. lia. }
    intros s2. apply okerr_bind; [|intros; exact I].
    destruct (w_deps (snd st)) as [dm|] eqn:Ed; [|exact I].
    apply okerr_bind; [apply split_deps_ok; now apply Hdp|intros; exact I].
  Qed.
End Un.

(** C10: Unmarshal never panics and never runs out of its recursion budget *)
Theorem unmarshal_fuel_ok : forall n d, jdoc_size d <= n -> okerr (unmarshal_fuel n d).
Proof.
  induction n as [|n IH]; intros d H; [pose proof (size_pos d); lia|].
  destruct d as [|b| | | |m]; try exact I; [destruct b; exact I|].
  cbn [unmarshal_fuel]. apply (unmarshal_object_ok (unmarshal_fuel n) (jdoc_size (DObj m))).
  - intros d' Hd'. apply IH. lia.
  - cbn. unfold sum_msizes. lia.
Qed.

Theorem unmarshal_total d : (exists s, unmarshal d = Ok s) \/ unmarshal d = Err.
Proof.
  pose proof (unmarshal_fuel_ok (jdoc_size d) d (Nat.le_refl _)) as H. unfold unmarshal.
  destruct (unmarshal_fuel (jdoc_size d) d); try contradiction; eauto.
Qed.
