(** JSON Pointer facts (C17): escaping round trip, parsing of rendered pointers, and
    soundness of dereferencing (the location returned is where the subschema is). *)
From Coq Require Import List NArith ZArith Bool Lia Wf_nat.
From JS Require Import Str StrFacts Lit Res Schema Pointer.
Import ListNotations.
Open Scope list_scope.

Lemma unescape_escape s : unescape_seg (escape_seg s) = s.
Proof.
  induction s as [|c r IH]; [reflexivity|]. cbn [escape_seg].
  destruct (N.eqb c c_tilde) eqn:E1.
  - apply N.eqb_eq in E1. subst c. cbn. now rewrite IH.
  - destruct (N.eqb c c_slash) eqn:E2.
    + apply N.eqb_eq in E2. subst c. cbn. now rewrite IH.
    + cbn [unescape_seg]. rewrite E1. now rewrite IH.
Qed.

Lemma valid_escapes_escape s : valid_escapes (escape_seg s) = true.
Proof.
  induction s as [|c r IH]; [reflexivity|]. cbn [escape_seg].
  destruct (N.eqb c c_tilde) eqn:E1; [cbn; exact IH|].
  destruct (N.eqb c c_slash) eqn:E2; [cbn; exact IH|].
  cbn [valid_escapes]. now rewrite E1.
Qed.

Lemma escape_no_slash s : forallb (fun c => negb (N.eqb c c_slash)) (escape_seg s) = true.
Proof.
  induction s as [|c r IH]; [reflexivity|]. cbn [escape_seg].
  destruct (N.eqb c c_tilde) eqn:E1; [cbn; exact IH|].
  destruct (N.eqb c c_slash) eqn:E2; [cbn; exact IH|].
  cbn [forallb]. now rewrite E2.
Qed.

(** RFC 6901 rendering of a list of reference tokens *)
Definition render (segs : list str) : str := flat_map (fun s => c_slash :: escape_seg s) segs.

Lemma split_slash_app s cur rest :
  forallb (fun c => negb (N.eqb c c_slash)) s = true ->
  split_slash (s ++ c_slash :: rest) cur = rev (rev s ++ cur) :: split_slash rest [].
Proof.
  revert cur; induction s as [|c r IH]; intros cur H; cbn [app split_slash].
  - rewrite N.eqb_refl. reflexivity.
  - cbn [forallb] in H. apply andb_true_iff in H as [H1 H2]. apply negb_true_iff in H1. rewrite H1.
    rewrite (IH (c :: cur) H2). cbn [rev]. now rewrite <- app_assoc.
Qed.

Lemma split_slash_last s cur :
  forallb (fun c => negb (N.eqb c c_slash)) s = true -> split_slash s cur = [rev (rev s ++ cur)].
Proof.
  revert cur; induction s as [|c r IH]; intros cur H; cbn [split_slash]; [reflexivity|].
  cbn [forallb] in H. apply andb_true_iff in H as [H1 H2]. apply negb_true_iff in H1. rewrite H1.
  rewrite (IH (c :: cur) H2). cbn [rev]. now rewrite <- app_assoc.
Qed.

Lemma split_render x segs :
  split_slash (escape_seg x ++ render segs) [] = map escape_seg (x :: segs).
Proof.
  revert x; induction segs as [|y r IH]; intros x; cbn [render flat_map map].
  - rewrite app_nil_r, split_slash_last by apply escape_no_slash. now rewrite app_nil_r, rev_involutive.
  - change ((c_slash :: escape_seg y) ++ flat_map (fun s => c_slash :: escape_seg s) r)
      with (c_slash :: (escape_seg y ++ render r)).
    rewrite split_slash_app by apply escape_no_slash. rewrite app_nil_r, rev_involutive.
    f_equal. apply IH.
Qed.

(** parsing a rendered pointer gives back the reference tokens, for every key string *)
Theorem parse_render segs : parseJSONPointer (render segs) = Ok segs.
Proof.
  destruct segs as [|x r]; [reflexivity|].
  cbn [render flat_map]. unfold parseJSONPointer. cbn [app]. rewrite N.eqb_refl.
  change (flat_map (fun s => c_slash :: escape_seg s) r) with (render r).
  rewrite split_render.
  assert (H1 : forallb valid_escapes (map escape_seg (x :: r)) = true).
  { apply forallb_forall. intros y Hy. apply in_map_iff in Hy as (z & <- & _). apply valid_escapes_escape. }
  rewrite H1. f_equal. rewrite map_map. rewrite <- (map_id (x :: r)) at 2. apply map_ext. apply unescape_escape.
Qed.

(** dereferencing is sound: the location it reports is the location of the subschema *)
Definition pval_at (v : pval) (p : list seg) : option schema :=
  match v, p with
  | PSchema s, _ => subschema_at s p
  | PList l, SIdx i :: r => match nth_error l i with Some c => subschema_at c r | None => None end
  | PMap m, SKey k :: r => match lookup k m with Some c => subschema_at c r | None => None end
  | _, _ => None
  end.

Lemma subschema_at_app s p q c : subschema_at s p = Some c -> forall d, subschema_at c q = Some d -> subschema_at s (p ++ q) = Some d.
Proof.
  revert s; induction p as [p IH] using (induction_ltof1 _ (@length seg)). unfold ltof in IH.
  intros s H d Hd. destruct p as [|[f|i] r]; cbn [app subschema_at] in *.
  - injection H as <-. exact Hd.
  - destruct (lookup_field f s) as [[c0| |l|m|]|]; try discriminate.
    + apply (IH r); [cbn; lia|exact H|exact Hd].
    + destruct r as [|[k|i] r']; try discriminate. destruct (nth_error l i) as [c1|] eqn:En; [|discriminate].
      cbn [app]. rewrite En. apply (IH r'); [cbn; lia|exact H|exact Hd].
    + destruct r as [|[k|i] r']; try discriminate. destruct (lookup k m) as [c1|] eqn:El; [|discriminate].
      cbn [app]. rewrite El. apply (IH r'); [cbn; lia|exact H|exact Hd].
  - discriminate.
Qed.

Theorem deref_walk_sound segs : forall v path root p c,
  (forall q d, pval_at v q = Some d -> subschema_at root (path ++ q) = Some d) ->
  deref_walk v segs path = Ok (p, c) -> subschema_at root p = Some c.
Proof.
  induction segs as [|sg r IH]; intros v path root p c Hinv H; cbn [deref_walk] in H.
  - destruct v; try discriminate. injection H as <- <-.
    specialize (Hinv [] s). cbn [pval_at subschema_at] in Hinv. rewrite app_nil_r in Hinv. now apply Hinv.
  - destruct v as [s| |l|m|]; try discriminate.
    + destruct (lookup_field sg s) as [v'|] eqn:El; [|discriminate].
      apply (IH v' (path ++ [SKey sg]) root p c); [|exact H].
      intros q d Hq. rewrite <- app_assoc. apply Hinv. cbn [pval_at app subschema_at]. rewrite El.
      destruct v' as [c0| |l0|m0|]; cbn [pval_at] in Hq; try discriminate; try exact Hq;
        destruct q as [|[k|i] q']; try discriminate; exact Hq.
    + destruct (index_below sg (length l)) as [n|]; [|discriminate]. destruct (nth_error l n) as [c0|] eqn:En; [|discriminate].
      apply (IH (PSchema c0) (path ++ [SIdx n]) root p c); [|exact H].
      intros q d Hq. rewrite <- app_assoc. apply Hinv. cbn [pval_at app]. now rewrite En.
    + destruct (lookup sg m) as [c0|] eqn:El; [|discriminate].
      apply (IH (PSchema c0) (path ++ [SKey sg]) root p c); [|exact H].
      intros q d Hq. rewrite <- app_assoc. apply Hinv. cbn [pval_at app]. now rewrite El.
Qed.

(** C17_only (soundness half): whatever a pointer resolves to is the subschema at the
    location the resolver records *)
Theorem dereference_sound s ptr p c :
  dereferenceJSONPointer s ptr = Ok (p, c) -> subschema_at s p = Some c.
Proof.
  unfold dereferenceJSONPointer. destruct (parseJSONPointer ptr) as [segs| | |]; cbn [bind]; try discriminate.
  apply deref_walk_sound. intros q d Hq. exact Hq.
Qed.

(** decimal rendering of an array index, and its parsing *)
Fixpoint digits_fuel (fuel : nat) (n : N) : str :=
  match fuel with
  | O => []
  | S f => if N.ltb n 10 then [(48 + n)%N] else digits_fuel f (n / 10) ++ [(48 + n mod 10)%N]
  end.
Definition digits (n : nat) : str := digits_fuel (S (N.to_nat (N.log2 (N.of_nat n)))) (N.of_nat n).

Definition dval (s : str) : N := fold_left (fun a d => a * 10 + (d - 48))%N s 0%N.

Lemma dval_app s d : dval (s ++ [d]) = (dval s * 10 + (d - 48))%N.
Proof. unfold dval. now rewrite fold_left_app. Qed.

Lemma digits_fuel_spec : forall fuel n, (N.to_nat (N.log2 n) < fuel)%nat ->
  dval (digits_fuel fuel n) = n /\ forallb is_digit (digits_fuel fuel n) = true /\
  (digits_fuel fuel n <> []) /\
  (forall c r, digits_fuel fuel n = c :: r -> r <> [] -> c <> c_0).
Proof.
  induction fuel as [|f IH]; intros n Hf; [lia|]. cbn [digits_fuel].
  destruct (N.ltb n 10) eqn:E.
  - apply N.ltb_lt in E. repeat split.
    + unfold dval. cbn [fold_left]. lia.
    + cbn [forallb]. unfold is_digit. rewrite andb_true_r. apply andb_true_iff. split; apply N.leb_le; lia.
    + discriminate.
    + intros c r [= <- <-] Hr. contradiction.
  - apply N.ltb_ge in E.
    assert (Hlog : (N.to_nat (N.log2 (n / 10)) < f)%nat).
    { assert (N.log2 (n / 10) < N.log2 n)%N.
      { assert (H2 : (n / 10 <= n / 2)%N) by (apply N.div_le_compat_l; lia).
        assert (H3 : (N.log2 (n / 2) < N.log2 n)%N).
        { rewrite <- N.div2_div. rewrite N.div2_spec. rewrite N.log2_shiftr. assert (1 <= N.log2 n)%N.
          { change 1%N with (N.log2 2). apply N.log2_le_mono. lia. } lia. }
        assert (N.log2 (n / 10) <= N.log2 (n / 2))%N by now apply N.log2_le_mono. lia. }
      lia. }
    destruct (IH (n / 10)%N Hlog) as (H1 & H2 & H3 & H4).
    repeat split.
    + rewrite dval_app, H1. pose proof (N.mod_lt n 10 ltac:(lia)). pose proof (N.div_mod n 10 ltac:(lia)) as Hdm.
      set (q := (n / 10)%N) in *. set (m := (n mod 10)%N) in *. clearbody q m. lia.
    + rewrite forallb_app, H2. cbn [forallb andb]. unfold is_digit. pose proof (N.mod_lt n 10 ltac:(lia)) as Hm.
      set (m := (n mod 10)%N) in *. clearbody m.
      rewrite andb_true_r. apply andb_true_iff. split; apply N.leb_le; lia.
    + destruct (digits_fuel f (n / 10)); discriminate.
    + intros c r Hc Hr. destruct (digits_fuel f (n / 10)) as [|c' r'] eqn:Ed; [contradiction|].
      cbn [app] in Hc. injection Hc as <- <-.
      destruct r' as [|c'' r''].
      * (* n/10 is a single digit: it is not zero because n >= 10 *)
        intros ->. unfold dval in H1. cbn [fold_left] in H1. assert (n / 10 = 0)%N by (unfold c_0 in H1; lia).
        assert (1 <= n / 10)%N by (apply N.div_le_lower_bound; lia). lia.
      * apply (H4 c' (c'' :: r'') eq_refl). discriminate.
Qed.

Theorem parse_index_digits n : parse_index (digits n) = Some n.
Proof.
  unfold digits.
  destruct (digits_fuel_spec (S (N.to_nat (N.log2 (N.of_nat n)))) (N.of_nat n)) as (H1 & H2 & H3 & H4); [apply Nat.lt_succ_diag_r|].
  unfold parse_index, index_N. destruct (digits_fuel _ (N.of_nat n)) as [|c r] eqn:E; [contradiction|].
  rewrite H2. cbn [negb].
  destruct r as [|c' r'].
  - rewrite andb_false_r. cbn [option_map]. f_equal. change (fold_left _ [c] 0%N) with (dval [c]). rewrite H1. apply Nat2N.id.
  - assert (Hc : N.eqb c c_0 = false) by (apply N.eqb_neq; apply (H4 c (c' :: r') eq_refl); discriminate).
    rewrite Hc. cbn [andb option_map]. f_equal. change (fold_left _ (c :: c' :: r') 0%N) with (dval (c :: c' :: r')).
    rewrite H1. apply Nat2N.id.
Qed.

(** [index_below] is [parse_index] followed by the bound check *)
Lemma index_below_spec s len :
  index_below s len = match parse_index s with Some n => if Nat.ltb n len then Some n else None | None => None end.
Proof.
  unfold index_below, parse_index. destruct (index_N s) as [n|]; [|reflexivity]. cbn [option_map].
  destruct (N.ltb_spec n (N.of_nat len)), (Nat.ltb_spec (N.to_nat n) len); try reflexivity; lia.
Qed.

(** the reference tokens of a location *)
Definition token (sg : seg) : str := match sg with SKey k => k | SIdx i => digits i end.

(** C17_addressable, location level: the pointer made of a location's tokens dereferences
    to exactly that location *)
Theorem deref_walk_complete : forall p v path c,
  pval_at v p = Some c -> deref_walk v (map token p) path = Ok (path ++ p, c).
Proof.
  induction p as [p IH] using (induction_ltof1 _ (@length seg)). unfold ltof in IH.
  intros v path c H. destruct v as [s| |l|m|]; try (destruct p; discriminate).
  - destruct p as [|[f|i] r]; cbn [pval_at subschema_at map deref_walk token] in *.
    + injection H as <-. now rewrite app_nil_r.
    + destruct (lookup_field f s) as [[c0| |l|m|]|] eqn:El; try discriminate.
      * rewrite (IH r ltac:(cbn; lia) (PSchema c0) (path ++ [SKey f]) c H). now rewrite <- app_assoc.
      * destruct r as [|[k|i] r']; try discriminate.
        rewrite (IH (SIdx i :: r') ltac:(cbn; lia) (PList l) (path ++ [SKey f]) c H). now rewrite <- app_assoc.
      * destruct r as [|[k|i] r']; try discriminate.
        rewrite (IH (SKey k :: r') ltac:(cbn; lia) (PMap m) (path ++ [SKey f]) c H). now rewrite <- app_assoc.
    + discriminate.
  - destruct p as [|[k|i] r]; try discriminate. cbn [pval_at map deref_walk token] in *.
    destruct (nth_error l i) as [c0|] eqn:En; [|discriminate].
    rewrite index_below_spec, parse_index_digits.
    assert (Hlt : Nat.ltb i (length l) = true) by (apply Nat.ltb_lt, nth_error_Some; congruence).
    rewrite Hlt, En.
    rewrite (IH r ltac:(cbn; lia) (PSchema c0) (path ++ [SIdx i]) c H). now rewrite <- app_assoc.
  - destruct p as [|[k|i] r]; try discriminate. cbn [pval_at map deref_walk token] in *.
    destruct (lookup k m) as [c0|]; [|discriminate].
    rewrite (IH r ltac:(cbn; lia) (PSchema c0) (path ++ [SKey k]) c H). now rewrite <- app_assoc.
Qed.

Theorem dereference_complete s p c :
  subschema_at s p = Some c -> dereferenceJSONPointer s (render (map token p)) = Ok (p, c).
Proof.
  intros H. unfold dereferenceJSONPointer. rewrite parse_render. cbn [bind].
  apply (deref_walk_complete p (PSchema s) [] c H).
Qed.
