From Coq Require Import List NArith ZArith QArith Bool.
From JS Require Import Str Lit Json Res GoValue Schema Codec.
Import ListNotations.
Open Scope list_scope.

Definition is_some {A} (o : option A) : bool := match o with Some _ => true | None => false end.
Definition nonempty (s : str) : bool := match s with [] => false | _ => true end.

(** schema.go: basicChecks *)
Definition basicChecks (s : schema) : bool :=
  negb (nonempty (s_type s) && is_some (s_types s)) &&
  negb (is_some (s_defs s) && is_some (s_definitions s)) &&
  negb (is_some (s_items s) && is_some (s_itemsArray s)) &&
  nodup_strs (match s_propertyOrder s with Some l => l | None => [] end) &&
  forallb (fun kv => negb (is_some (lookup (fst kv) (match s_dependencyStrings s with Some m => m | None => [] end))))
          (match s_dependencySchemas s with Some m => m | None => [] end).


(** Schema.MarshalJSON *)
Fixpoint marshal_fuel (n : nat) (s : schema) : res jdoc :=
  match n with
  | O => OutOfFuel
  | S n' => marshal_schema (marshal_fuel n') s (basicChecks s)
  end.
Definition marshal (s : schema) : res jdoc := marshal_fuel (size s) s.
