(** The hash law (C12): values that equalValue identifies write the same data to the
    hash.  Only this direction is needed for uniqueItems to be independent of the seed. *)
From Coq Require Import List NArith ZArith QArith Bool Lia Permutation.
From JS Require Import Str StrFacts Json GoValue Equal EqualFacts Hash.
Import ListNotations.
Open Scope list_scope.

Lemma hash_strip g : hash_stream (strip g) = hash_stream g.
Proof. induction g using gv_ind'; cbn; auto. Qed.

Lemma hash_number_eq a b : q_eqb a b = true -> hash_number a = hash_number b.
Proof.
  unfold q_eqb. intros H. apply Qeq_bool_iff in H. apply Qred_complete in H.
  unfold hash_number. now rewrite H.
Qed.

Lemma gv_wf_arr l : gv_wf (GArr l) = true -> Forall (fun x => gv_wf x = true) l.
Proof.
  cbn. induction l as [|x r IH]; intros H; [constructor|].
  apply andb_true_iff in H as [H1 H2]. constructor; auto.
Qed.

Lemma gv_wf_map m : gv_wf (GMap m) = true -> NoDup (keys m) /\ Forall (fun kv => gv_wf (snd kv) = true) m.
Proof.
  cbn. intros H. apply andb_true_iff in H as [H1 H2]. split; [now apply nodup_strs_NoDup|].
  clear H1. induction m as [|[k v] r IH]; [constructor|].
  apply andb_true_iff in H2 as [H2 H3]. constructor; auto.
Qed.

Lemma gv_wf_strip g : gv_wf g = true -> gv_wf (strip g) = true.
Proof. induction g using gv_ind'; cbn; auto. Qed.

(* the value stream the hash writes for key k of a map: a lookup *)
Definition find_stream (k : str) (m : list (str * gv)) : list tok :=
  (fix find (m : list (str * gv)) : list tok :=
     match m with
     | [] => []
     | (k', v) :: m' => if str_eqb k k' then hash_stream v else find m'
     end) m.

Lemma find_stream_lookup k m : find_stream k m = match lookup k m with Some v => hash_stream v | None => [] end.
Proof. induction m as [|[k' v] r IH]; cbn; [reflexivity|]. destruct (str_eqb k k'); auto. Qed.

Definition map_stream (m : list (str * gv)) (ks : list str) : list tok :=
  (fix go (sorted : list str) : list tok :=
     match sorted with
     | [] => []
     | k :: r => TStrTok k :: find_stream k m ++ go r
     end) ks.

Lemma hash_stream_map m : hash_stream (GMap m) = TU64 (Z.of_nat (length m)) :: map_stream m (sort_strs (keys m)).
Proof. reflexivity. Qed.

Lemma map_stream_ext m1 m2 ks :
  (forall k, In k ks -> find_stream k m1 = find_stream k m2) -> map_stream m1 ks = map_stream m2 ks.
Proof.
  induction ks as [|k r IH]; intros H; [reflexivity|]. cbn. rewrite (H k) by now left.
  f_equal. f_equal. apply IH. intros; apply H; now right.
Qed.

Lemma equal_maps_keys (m1 m2 : list (str * gv)) :
  NoDup (keys m1) -> length m1 = length m2 ->
  (forall k v, In (k, v) m1 -> exists v', lookup k m2 = Some v') ->
  Permutation (keys m1) (keys m2).
Proof.
  intros Hnd Hlen Hsub. apply NoDup_Permutation_bis; [exact Hnd| |].
  - unfold keys. rewrite !map_length. rewrite Hlen. apply Nat.le_refl.
  - intros k Hk. unfold keys in Hk. apply in_map_iff in Hk as ([k' v] & <- & Hin).
    destruct (Hsub _ _ Hin) as (v' & Hl). apply lookup_In in Hl.
    unfold keys. apply in_map_iff. exists (k', v'). split; [reflexivity|exact Hl].
Qed.

Theorem hash_law : forall x y, gv_wf x = true -> gv_wf y = true ->
  equalValue x y = true -> hash_stream x = hash_stream y.
Proof.
  induction x using gv_ind'; intros y Hwx Hwy Heq; cbn [equalValue] in Heq; rewrite <- (hash_strip y);
    pose proof (gv_wf_strip y Hwy) as Hwy'.
  - destruct (strip y); try discriminate. reflexivity.
  - destruct (strip y); try discriminate. apply Bool.eqb_prop in Heq. now subst.
  - destruct (strip y); cbn in Heq; try discriminate; cbn [hash_stream]; now apply hash_number_eq.
  - destruct (strip y); cbn in Heq; try discriminate; cbn [hash_stream]; now apply hash_number_eq.
  - destruct (strip y); cbn in Heq; try discriminate; cbn [hash_stream]; now apply hash_number_eq.
  - destruct (strip y); try discriminate. apply str_eqb_eq in Heq. now subst.
  - destruct (strip y) as [| | | | | |l2| |]; try discriminate.
    apply andb_true_iff in Heq as [Hlen Hgo]. apply Nat.eqb_eq in Hlen.
    cbn [hash_stream]. rewrite Hlen. f_equal.
    apply gv_wf_arr in Hwx. apply gv_wf_arr in Hwy'.
    revert l2 Hlen Hwy' Hgo. induction H as [|x l1 Hx Hl IH]; intros [|y2 l2] Hlen Hw2 Hgo; cbn in *; try reflexivity; try discriminate.
    apply andb_true_iff in Hgo as [H1 H2]. inversion Hwx; inversion Hw2; subst.
    f_equal; [now apply Hx|]. apply IH; auto.
  - destruct (strip y) as [| | | | | | |m2|]; try discriminate.
    apply andb_true_iff in Heq as [Hlen Hgo]. apply Nat.eqb_eq in Hlen.
    apply gv_wf_map in Hwx as [Hnd1 Hw1]. apply gv_wf_map in Hwy' as [Hnd2 Hw2].
    assert (Hall : forall k v, In (k, v) m -> exists v', lookup k m2 = Some v' /\ equalValue v v' = true).
    { clear -Hgo. induction m as [|[k0 v0] r IH]; intros k v Hin; [contradiction|].
      destruct (lookup k0 m2) as [v0'|] eqn:El; [|discriminate].
      apply andb_true_iff in Hgo as [H1 H2].
      destruct Hin as [[= <- <-]|Hin]; [eauto|]. now apply IH. }
    rewrite !hash_stream_map, Hlen. f_equal.
    assert (HP : Permutation (keys m) (keys m2)).
    { apply equal_maps_keys; auto. intros k v Hin. destruct (Hall k v Hin) as (v' & Hl & _). eauto. }
    rewrite (sort_strs_perm_eq _ _ HP).
    apply map_stream_ext. intros k Hk.
    rewrite !find_stream_lookup.
    assert (Hk1 : In k (keys m)).
    { eapply Permutation_in; [apply Permutation_sym; exact HP|]. eapply Permutation_in; [apply Permutation_sym, sort_strs_perm|exact Hk]. }
    unfold keys in Hk1. apply in_map_iff in Hk1 as ([k' v] & <- & Hin). cbn [fst].
    destruct (Hall _ _ Hin) as (v' & Hl & He). rewrite Hl, (In_lookup k' v m Hnd1 Hin).
    rewrite Forall_forall in H, Hw1, Hw2.
    apply (H (k', v) Hin); [apply (Hw1 (k', v) Hin) | apply lookup_In in Hl; apply (Hw2 (k', v') Hl) | exact He].
  - apply IHx; auto. rewrite equalValue_den, den_strip, <- equalValue_den. exact Heq.
Qed.
