(** Go representations of JSON values, as the package sees them through reflect.
    After the repairs recorded in known_findings.json the package is insensitive to
    the static element/key types of containers and to pointer-vs-interface, so the
    model keeps exactly the distinctions the code still looks at:
    numeric flavour (integer kinds / float kinds / json.Number) and indirections. *)
From Coq Require Import List NArith ZArith QArith Bool.
From JS Require Import Str Json.
Import ListNotations.
Open Scope list_scope.

Inductive gv :=
| GNil                         (* the invalid reflect.Value: a nil interface / what a nil pointer points to *)
| GBool (b : bool)
| GInt (z : Z)                 (* any signed or unsigned integer kind *)
| GFloat (q : Q)               (* float32 / float64, exact value *)
| GJNum (q : Q)                (* json.Number with a literal big.Rat can parse *)
| GStr (s : str)               (* kind String (named or not), other than json.Number *)
| GArr (l : list gv)           (* non-nil slice or array, any element type *)
| GMap (m : list (str * gv))   (* non-nil map, key kind String; list order = iteration order of this run *)
| GInd (v : gv).               (* pointer or interface holding v (GInd GNil = nil pointer) *)

(** the JSON value denoted *)
Fixpoint den (g : gv) : json :=
  match g with
  | GNil => JNull
  | GBool b => JBool b
  | GInt z => JNum (inject_Z z)
  | GFloat q => JNum q
  | GJNum q => JNum q
  | GStr s => JStr s
  | GArr l => JArr (map den l)
  | GMap m => JObj (map (fun kv => (fst kv, den (snd kv))) m)
  | GInd v => den v
  end.

(** the representation encoding/json produces when decoding into [any] *)
Fixpoint canon (j : json) : gv :=
  match j with
  | JNull => GInd GNil
  | JBool b => GInd (GBool b)
  | JNum q => GInd (GFloat q)
  | JStr s => GInd (GStr s)
  | JArr l => GInd (GArr (map canon l))
  | JObj m => GInd (GMap (map (fun kv => (fst kv, canon (snd kv))) m))
  end.

(** well-formed: map keys distinct (a Go map cannot hold a key twice) *)
Fixpoint gv_wf (g : gv) : bool :=
  match g with
  | GArr l => (fix go (l : list gv) : bool := match l with [] => true | x :: r => gv_wf x && go r end) l
  | GMap m =>
      nodup_strs (keys m) &&
      (fix go (m : list (str * gv)) : bool := match m with [] => true | (_, v) :: r => gv_wf v && go r end) m
  | GInd v => gv_wf v
  | _ => true
  end.

(** [indirect]: step through pointers and interfaces *)
Fixpoint strip (g : gv) : gv :=
  match g with
  | GInd v => strip v
  | _ => g
  end.

(** util.go: jsonNumber *)
Definition jsonNumber (g : gv) : option Q :=
  match g with
  | GInt z => Some (inject_Z z)
  | GFloat q => Some q
  | GJNum q => Some q
  | _ => None
  end.

(** JSON type names *)
Inductive jtype := TNull | TBoolean | TInteger | TNumber | TString | TArray | TObject.

(** util.go: jsonType (on a stripped value) *)
Definition jsonType (g : gv) : option jtype :=
  match g with
  | GNil => Some TNull
  | GBool _ => Some TBoolean
  | GInt _ => Some TInteger
  | GFloat q => Some (if q_is_int q then TInteger else TNumber)
  | GJNum q => Some (if q_is_int q then TInteger else TNumber)
  | GStr _ => Some TString
  | GArr _ => Some TArray
  | GMap _ => Some TObject
  | GInd _ => None (* not reached: callers strip first *)
  end.

(** the type of a JSON value per the specification *)
Definition json_type (j : json) : jtype :=
  match j with
  | JNull => TNull
  | JBool _ => TBoolean
  | JNum q => if q_is_int q then TInteger else TNumber
  | JStr _ => TString
  | JArr _ => TArray
  | JObj _ => TObject
  end.
