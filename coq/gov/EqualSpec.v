(** Equal is JSON value equality (C11), assembled from EqualFacts and JsonFacts. *)
From Coq Require Import List NArith ZArith QArith Bool.
From JS Require Import Str StrFacts Json JsonFacts GoValue Equal EqualFacts.
Import ListNotations.

Lemma json_wf_den : forall g, gv_wf g = true -> json_wf (den g) = true.
Proof.
  induction g using gv_ind'; cbn [gv_wf den json_wf]; auto.
  - induction H as [|x l Hx Hl IH]; cbn; [reflexivity|]. intros Hw. apply andb_true_iff in Hw as [H1 H2].
    rewrite (Hx H1). cbn. now apply IH.
  - intros Hw. apply andb_true_iff in Hw as [H1 H2]. apply andb_true_iff. split.
    + unfold keys in *. rewrite map_map. cbn. exact H1.
    + clear H1. induction H as [|[k x] m Hx Hm IH]; cbn in *; [reflexivity|].
      apply andb_true_iff in H2 as [H2 H3]. rewrite (Hx H2). cbn. now apply IH.
Qed.

Theorem Equal_is_json_equality x y :
  gv_wf x = true -> gv_wf y = true -> (equalValue x y = true <-> jeq (den x) (den y)).
Proof.
  intros Hx Hy. rewrite equalValue_den. apply json_eqb_jeq; now apply json_wf_den.
Qed.

Corollary Equal_refl x : gv_wf x = true -> equalValue x x = true.
Proof. intros H. apply Equal_is_json_equality; auto. apply jeq_refl. Qed.

Corollary Equal_sym x y : gv_wf x = true -> gv_wf y = true -> equalValue x y = true -> equalValue y x = true.
Proof. intros Hx Hy H. apply Equal_is_json_equality; auto. apply jeq_sym. now apply Equal_is_json_equality. Qed.

Corollary Equal_trans x y z :
  gv_wf x = true -> gv_wf y = true -> gv_wf z = true ->
  equalValue x y = true -> equalValue y z = true -> equalValue x z = true.
Proof.
  intros Hx Hy Hz H1 H2. apply Equal_is_json_equality; auto.
  apply (jeq_trans _ (den y)).
  - now apply (Equal_is_json_equality x y).
  - now apply (Equal_is_json_equality y z).
Qed.
