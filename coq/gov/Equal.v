(** util.go: equalValue (after the repair: compares JSON values across representations) *)
From Coq Require Import List NArith ZArith QArith Bool.
From JS Require Import Str Json GoValue.
Import ListNotations.
Open Scope list_scope.

Fixpoint equalValue (x y : gv) {struct x} : bool :=
  match x with
  | GInd x' => equalValue x' y
  | GNil => match strip y with GNil => true | _ => false end
  | GBool a => match strip y with GBool b => Bool.eqb a b | _ => false end
  | GInt _ | GFloat _ | GJNum _ =>
      match jsonNumber x, jsonNumber (strip y) with
      | Some a, Some b => q_eqb a b
      | _, _ => false
      end
  | GStr a => match strip y with GStr b => str_eqb a b | _ => false end
  | GArr l1 =>
      match strip y with
      | GArr l2 =>
          Nat.eqb (length l1) (length l2) &&
          (fix go (l1 l2 : list gv) {struct l1} : bool :=
             match l1, l2 with
             | x :: r1, y :: r2 => equalValue x y && go r1 r2
             | _, _ => true
             end) l1 l2
      | _ => false
      end
  | GMap m1 =>
      match strip y with
      | GMap m2 =>
          Nat.eqb (length m1) (length m2) &&
          (fix go (m : list (str * gv)) {struct m} : bool :=
             match m with
             | [] => true
             | (k, v) :: r =>
                 match lookup k m2 with
                 | Some v' => equalValue v v'
                 | None => false
                 end && go r
             end) m1
      | _ => false
      end
  end.
