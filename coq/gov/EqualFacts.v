(** equalValue computes JSON equality of the denoted values (C11), for every pair of
    representations; jsonType computes the JSON type. *)
From Coq Require Import List NArith ZArith QArith Bool Lia.
From JS Require Import Str StrFacts Json GoValue Equal.
Import ListNotations.
Open Scope list_scope.

Section GvInd.
  Variable P : gv -> Prop.
  Hypothesis HNil : P GNil.
  Hypothesis HBool : forall b, P (GBool b).
  Hypothesis HInt : forall z, P (GInt z).
  Hypothesis HFloat : forall q, P (GFloat q).
  Hypothesis HJNum : forall q, P (GJNum q).
  Hypothesis HStr : forall s, P (GStr s).
  Hypothesis HArr : forall l, Forall P l -> P (GArr l).
  Hypothesis HMap : forall m, Forall (fun kv => P (snd kv)) m -> P (GMap m).
  Hypothesis HInd : forall v, P v -> P (GInd v).
  Fixpoint gv_ind' (g : gv) : P g :=
    match g with
    | GNil => HNil
    | GBool b => HBool b
    | GInt z => HInt z
    | GFloat q => HFloat q
    | GJNum q => HJNum q
    | GStr s => HStr s
    | GArr l => HArr l ((fix go (l : list gv) : Forall P l :=
                           match l with [] => Forall_nil _ | x :: r => Forall_cons x (gv_ind' x) (go r) end) l)
    | GMap m => HMap m ((fix go (m : list (str * gv)) : Forall (fun kv => P (snd kv)) m :=
                           match m with [] => Forall_nil _ | kv :: r => Forall_cons kv (gv_ind' (snd kv)) (go r) end) m)
    | GInd v => HInd v (gv_ind' v)
    end.
End GvInd.

Lemma den_strip g : den (strip g) = den g.
Proof. induction g using gv_ind'; cbn; auto. Qed.

Lemma strip_not_ind g v : strip g <> GInd v.
Proof. induction g using gv_ind'; cbn; try discriminate; auto. Qed.

Lemma strip_idem g : strip (strip g) = strip g.
Proof. induction g using gv_ind'; cbn; auto. Qed.

Lemma lookup_map {A B} (f : A -> B) k (m : list (str * A)) :
  lookup k (map (fun kv => (fst kv, f (snd kv))) m) = option_map f (lookup k m).
Proof.
  induction m as [|[k' v] r IH]; cbn; [reflexivity|]. destruct (str_eqb k k'); auto.
Qed.

(** equalValue x y is json_eqb on the denotations, for all representations *)
Theorem equalValue_den : forall x y, equalValue x y = json_eqb (den x) (den y).
Proof.
  induction x using gv_ind'; intros y; cbn [equalValue den].
  - rewrite <- (den_strip y). destruct (strip y) eqn:E; cbn; try reflexivity. exfalso; eapply strip_not_ind; eauto.
  - rewrite <- (den_strip y). destruct (strip y) eqn:E; cbn; try reflexivity. exfalso; eapply strip_not_ind; eauto.
  - rewrite <- (den_strip y). destruct (strip y) eqn:E; cbn; try reflexivity. exfalso; eapply strip_not_ind; eauto.
  - rewrite <- (den_strip y). destruct (strip y) eqn:E; cbn; try reflexivity. exfalso; eapply strip_not_ind; eauto.
  - rewrite <- (den_strip y). destruct (strip y) eqn:E; cbn; try reflexivity. exfalso; eapply strip_not_ind; eauto.
  - rewrite <- (den_strip y). destruct (strip y) eqn:E; cbn; try reflexivity. exfalso; eapply strip_not_ind; eauto.
  - rewrite <- (den_strip y). destruct (strip y) as [| | | | | |l2| |] eqn:E; cbn [den json_eqb]; try reflexivity.
    + clear E. revert l2. induction H as [|x l1 Hx Hl IH]; intros [|y2 l2]; cbn; try reflexivity.
      rewrite Hx. destruct (json_eqb (den x) (den y2)); cbn.
      * specialize (IH l2). cbn in IH.
        destruct (Nat.eqb (length l1) (length l2)) eqn:El.
        -- cbn in IH. exact IH.
        -- cbn in IH. clear -El. revert l2 El. induction l1 as [|a l1 IH]; intros [|b l2] El; cbn in *; try discriminate; try reflexivity.
           destruct (json_eqb (den a) (den b)); cbn; auto.
      * now rewrite andb_false_r.
    + exfalso; eapply strip_not_ind; eauto.
  - rewrite <- (den_strip y). destruct (strip y) as [| | | | | | |m2|] eqn:E; cbn [den json_eqb]; try reflexivity.
    + clear E. rewrite !map_length. f_equal.
      induction H as [|[k v] m1 Hv Hm IH]; cbn; [reflexivity|].
      rewrite (lookup_map den k m2). destruct (lookup k m2) as [v'|]; cbn.
      * cbn in Hv. rewrite Hv. f_equal. exact IH.
      * reflexivity.
    + exfalso; eapply strip_not_ind; eauto.
  - apply IHx.
Qed.

Lemma q_is_int_inject z : q_is_int (inject_Z z) = true.
Proof. unfold q_is_int, inject_Z. cbn. now rewrite Z.mod_1_r. Qed.

(** jsonType of a stripped representation is the JSON type of the value *)
Lemma jsonType_den g : jsonType (strip g) = Some (json_type (den g)).
Proof.
  rewrite <- (den_strip g). destruct (strip g) eqn:E; cbn [jsonType den json_type]; try reflexivity.
  - now rewrite q_is_int_inject.
  - exfalso; eapply strip_not_ind; eauto.
Qed.

Lemma jsonNumber_den g :
  jsonNumber (strip g) = match den g with JNum q => Some q | _ => None end.
Proof.
  rewrite <- (den_strip g). destruct (strip g) eqn:E; cbn; try reflexivity.
  exfalso; eapply strip_not_ind; eauto.
Qed.
