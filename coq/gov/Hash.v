(** util.go: hashValue, as the sequence of writes made to the maphash.  Each token
    determines the bytes written, so equal token streams mean equal byte streams. *)
From Coq Require Import List NArith ZArith QArith Bool.
From JS Require Import Str Json GoValue.
Import ListNotations.
Open Scope list_scope.

Inductive tok :=
| TU64 (z : Z)          (* writeUint: 8 bytes big endian *)
| TMag (p : Z)          (* big.Int.Bytes(): big-endian magnitude, empty for 0 *)
| TByte (b : N)
| TStrTok (s : str).    (* WriteString: the UTF-8 bytes *)

Definition hash_number (q : Q) : list tok :=
  let r := Qred q in
  [TU64 (Z.sgn (Qnum r) + 1); TMag (Z.abs (Qnum r)); TMag (Zpos (Qden r))].

Fixpoint hash_stream (g : gv) : list tok :=
  match g with
  | GNil => [TByte 0]
  | GBool b => [TByte (if b then 1 else 0)%N]
  | GInt z => hash_number (inject_Z z)
  | GFloat q => hash_number q
  | GJNum q => hash_number q
  | GStr s => [TStrTok s]
  | GArr l => TU64 (Z.of_nat (length l)) :: flat_map hash_stream l
  | GMap m =>
      TU64 (Z.of_nat (length m)) ::
      (fix go (sorted : list str) : list tok :=
         match sorted with
         | [] => []
         | k :: r =>
             TStrTok k ::
             (fix find (m : list (str * gv)) : list tok :=
                match m with
                | [] => []
                | (k', v) :: m' => if str_eqb k k' then hash_stream v else find m'
                end) m ++ go r
         end) (sort_strs (keys m))
  | GInd v => hash_stream v
  end.
