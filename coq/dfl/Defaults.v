(** validate.go: ApplyDefaults (applyDefaults, schemaHasDefaultsInProperties) and
    validateDefaults, on canonical instances (objects are map[string]any). *)
From Coq Require Import List NArith ZArith QArith Bool.
From JS Require Import Str Lit Json Res GoValue Hash Schema CodecBase Basic Env Ann Validate Resolve.
Import ListNotations.
Open Scope list_scope.

Definition is_required (s : schema) (k : str) : bool :=
  match s_required s with Some req => mem_str k req | None => false end.

(** schemaHasDefaultsInProperties: a default here, or below a non-required property *)
Fixpoint has_defaults (fuel : nat) (s : schema) : bool :=
  match fuel with
  | O => false
  | S n =>
      match s_default s with
      | Some _ => true
      | None =>
          existsb (fun kc => negb (is_required s (fst kc)) && has_defaults n (snd kc))
                  (match s_properties s with Some m => m | None => [] end)
      end
  end.

(** set a member of a Go map: replace in place or add *)
Definition obj_set (k : str) (v : json) (m : list (str * json)) : list (str * json) :=
  if existsb (fun kv => str_eqb k (fst kv)) m
  then map (fun kv => if str_eqb k (fst kv) then (k, v) else kv) m
  else m ++ [(k, v)].

(** applyDefaults on the value behind instancep *)
Fixpoint apply_defaults (fuel : nat) (s : schema) (j : json) : json :=
  match fuel with
  | O => j
  | S n =>
      match j with
      | JObj m =>
          JObj (fold_left
                  (fun m kc =>
                     let k := fst kc in let sub := snd kc in
                     if is_required s k then m
                     else
                       match lookup k m, s_default sub with
                       | None, Some d => obj_set k (apply_defaults n sub (doc_value d)) m
                       | Some v, _ => obj_set k (apply_defaults n sub v) m
                       | None, None =>
                           if has_defaults n sub then obj_set k (apply_defaults n sub (JObj [])) m else m
                       end)
                  (match s_properties s with Some ps => ps | None => [] end) m)
      | _ => j
      end
  end.

Definition ApplyDefaults (s : schema) (j : json) : json := apply_defaults (S (size s)) s j.

Section VD.
  Variable re_match : str -> str -> bool.
  Variable hash : list tok -> Z.

  (** Resolved.validateDefaults: every default in the root tree validates against the schema
      declaring it; a $dynamicRef anywhere in the tree is refused *)
  Definition validateDefaults (fuel : nat) (e : env) (root : schema) : res unit :=
    if negb (isValidSchemaVersion (e_version e)) then Err else
    (fix go (nodes : list (list seg * schema)) : res unit :=
       match nodes with
       | [] => Ok tt
       | (p, c) :: r =>
           match s_dynamicRef c with
           | _ :: _ => Err
           | [] =>
               (match s_default c with
                | Some d => validate re_match hash fuel e [] (decode_any d) (0%nat, p) c ;;; Ok tt
                | None => Ok tt
                end) ;;; go r
           end
       end) (all_sub root).
End VD.
