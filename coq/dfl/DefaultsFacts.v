(** C15: facts about ApplyDefaults / ValidateDefaults. *)
From Coq Require Import List NArith ZArith QArith Bool Lia.
From JS Require Import Str StrFacts Lit Json Res GoValue Hash Schema CodecBase Basic Env Ann Validate Resolve Defaults.
Import ListNotations.
Open Scope list_scope.

Lemma lookup_obj_set_other k k' v (m : list (str * json)) : k <> k' -> lookup k (obj_set k' v m) = lookup k m.
Proof.
  intros Hne. unfold obj_set. destruct (existsb _ m) eqn:E.
  - induction m as [|[k0 v0] r IH]; [reflexivity|]. cbn [map lookup fst].
    destruct (str_eqb k' k0) eqn:E0.
    + apply str_eqb_eq in E0. subst k0. cbn [lookup].
      assert (str_eqb k k' = false) as -> by now apply str_eqb_neq.
      cbn [existsb fst] in E. destruct (existsb (fun kv => str_eqb k' (fst kv)) r) eqn:Er.
      * now apply IH.
      * clear -Er. induction r as [|[k1 v1] r1 IH1]; [reflexivity|]. cbn in *.
        apply orb_false_iff in Er as [E1 E2]. rewrite E1. cbn [lookup]. now rewrite IH1.
    + cbn [lookup]. destruct (str_eqb k k0); [reflexivity|].
      cbn [existsb fst] in E. rewrite E0 in E. cbn in E. now apply IH.
  - induction m as [|[k0 v0] r IH]; cbn [app lookup].
    + assert (str_eqb k k' = false) as -> by now apply str_eqb_neq. reflexivity.
    + cbn [existsb fst] in E. apply orb_false_iff in E as [_ E]. destruct (str_eqb k k0); [reflexivity|]. now apply IH.
Qed.

(** the step function of applyDefaults never touches a key other than the property's *)
Definition step (n : nat) (s : schema) (m : list (str * json)) (kc : str * schema) : list (str * json) :=
  let k := fst kc in let sub := snd kc in
  if is_required s k then m
  else
    match lookup k m, s_default sub with
    | None, Some d => obj_set k (apply_defaults n sub (doc_value d)) m
    | Some v, _ => obj_set k (apply_defaults n sub v) m
    | None, None => if has_defaults n sub then obj_set k (apply_defaults n sub (JObj [])) m else m
    end.

Lemma apply_unfold n s m :
  apply_defaults (S n) s (JObj m) =
  JObj (fold_left (step n s) (match s_properties s with Some ps => ps | None => [] end) m).
Proof. reflexivity. Qed.

Lemma step_other n s m kc k : k <> fst kc -> lookup k (step n s m kc) = lookup k m.
Proof.
  intros Hne. unfold step. destruct (is_required s (fst kc)); [reflexivity|].
  destruct (lookup (fst kc) m); [now apply lookup_obj_set_other|].
  destruct (s_default (snd kc)); [now apply lookup_obj_set_other|].
  destruct (has_defaults n (snd kc)); [now apply lookup_obj_set_other|reflexivity].
Qed.

Lemma step_required n s m kc : is_required s (fst kc) = true -> step n s m kc = m.
Proof. intros H. unfold step. now rewrite H. Qed.

(** C15_required: ApplyDefaults never fills a required property *)
Theorem required_never_filled : forall n s m k,
  is_required s k = true -> lookup k m = None ->
  match apply_defaults n s (JObj m) with JObj m' => lookup k m' = None | _ => False end.
Proof.
  intros [|n] s m k Hreq Hl; [exact Hl|]. rewrite apply_unfold.
  generalize (match s_properties s with Some ps => ps | None => [] end) as ps. intros ps.
  revert m Hl. induction ps as [|kc r IH]; intros m Hl; cbn [fold_left]; [exact Hl|].
  apply IH. destruct (str_eq_dec k (fst kc)) as [->|Hne].
  - now rewrite step_required.
  - now rewrite step_other.
Qed.

(** properties of the schema that are absent from "properties" are never added either *)
Theorem only_declared_properties_added : forall n s m k,
  lookup k (match s_properties s with Some ps => ps | None => [] end) = None -> lookup k m = None ->
  match apply_defaults n s (JObj m) with JObj m' => lookup k m' = None | _ => False end.
Proof.
  intros [|n] s m k Hp Hl; [exact Hl|]. rewrite apply_unfold.
  revert Hp. generalize (match s_properties s with Some ps => ps | None => [] end) as ps. intros ps.
  revert m Hl. induction ps as [|[k0 c0] r IH]; intros m Hl Hp; cbn [fold_left]; [exact Hl|].
  cbn [lookup] in Hp. destruct (str_eqb k k0) eqn:E; [discriminate|].
  apply IH; [|exact Hp]. rewrite step_other; [exact Hl|]. cbn [fst]. now apply str_eqb_neq.
Qed.

(** non-objects are never changed *)
Theorem non_object_unchanged n s j : (forall m, j <> JObj m) -> apply_defaults n s j = j.
Proof. intros H. destruct n; [reflexivity|]. destruct j; try reflexivity. exfalso. now apply (H m). Qed.

Section VD.
  Variable re_match : str -> str -> bool.
  Variable hash : list tok -> Z.

  (** C15_validate_defaults: Resolve with ValidateDefaults succeeds exactly when the root's
      $schema is supported, no schema of the tree has a $dynamicRef, and every default
      validates against the schema that declares it *)
  Theorem validateDefaults_iff fuel e root :
    validateDefaults re_match hash fuel e root = Ok tt <->
    (isValidSchemaVersion (e_version e) = true /\
     forall p c, In (p, c) (all_sub root) ->
       s_dynamicRef c = [] /\
       (forall d, s_default c = Some d -> exists a, validate re_match hash fuel e [] (decode_any d) (0%nat, p) c = Ok a)).
  Proof.
    unfold validateDefaults. destruct (isValidSchemaVersion (e_version e)); cbn [negb].
    2:{ split; [discriminate|]. intros [H _]. discriminate. }
    generalize (all_sub root) as nodes. induction nodes as [|[p c] r IH].
    - split; [intros _; split; [reflexivity|intros ? ? []]|reflexivity].
    - destruct (s_dynamicRef c) as [|x y] eqn:Ed.
      + destruct (s_default c) as [d|] eqn:Edf.
        * destruct (validate re_match hash fuel e [] (decode_any d) (0%nat, p) c) as [a| | |] eqn:Ev; cbn [bind].
          -- rewrite IH. split.
             ++ intros [_ H]. split; [reflexivity|]. intros p0 c0 [[= <- <-]|Hin]; [|now apply H].
                split; [exact Ed|]. intros d0 Hd0. assert (d0 = d) by congruence. subst d0. eauto.
             ++ intros [_ H]. split; [reflexivity|]. intros p0 c0 Hin. apply H. now right.
          -- split; [discriminate|]. intros [_ H]. destruct (H p c (or_introl eq_refl)) as [_ Hd].
             destruct (Hd d Edf) as [a Ha]. congruence.
          -- split; [discriminate|]. intros [_ H]. destruct (H p c (or_introl eq_refl)) as [_ Hd].
             destruct (Hd d Edf) as [a Ha]. congruence.
          -- split; [discriminate|]. intros [_ H]. destruct (H p c (or_introl eq_refl)) as [_ Hd].
             destruct (Hd d Edf) as [a Ha]. congruence.
        * cbn [bind]. rewrite IH. split.
          -- intros [_ H]. split; [reflexivity|]. intros p0 c0 [[= <- <-]|Hin]; [|now apply H].
             split; [exact Ed|]. intros d0 Hd0. congruence.
          -- intros [_ H]. split; [reflexivity|]. intros p0 c0 Hin. apply H. now right.
      + split; [discriminate|]. intros [_ H]. destruct (H p c (or_introl eq_refl)) as [Hd _]. congruence.
  Qed.
End VD.

(** "leaves every value already present untouched": the result extends the instance *)
Inductive json_le : json -> json -> Prop :=
| le_obj m m' :
    (forall k v, lookup k m = Some v -> exists v', lookup k m' = Some v' /\ json_le v v') ->
    json_le (JObj m) (JObj m')
| le_same j : json_le j j.

From JS Require Import JsonFacts.

Lemma json_le_trans : forall a b c, json_le a b -> json_le b c -> json_le a c.
Proof.
  induction a using json_ind'; intros b0 c0 H1 H2; inversion H1; subst; try exact H2.
  inversion H2; subst; [|exact H1].
  constructor. intros k v Hl.
  match goal with Hm : forall k v, lookup k m = Some v -> _ |- _ => destruct (Hm k v Hl) as (v' & Hl' & Hle) end.
  match goal with Hm : forall k v, lookup k m' = Some v -> _ |- _ => destruct (Hm k v' Hl') as (v'' & Hl'' & Hle') end.
  exists v''. split; [exact Hl''|].
  rewrite Forall_forall in H. apply (H (k, v) (lookup_In _ _ _ Hl) v' v''); assumption.
Qed.

Lemma lookup_obj_set_same k v (m : list (str * json)) : lookup k (obj_set k v m) = Some v.
Proof.
  unfold obj_set. destruct (existsb _ m) eqn:E.
  - induction m as [|[k0 v0] r IH]; [discriminate|]. cbn [map lookup fst existsb] in *.
    destruct (str_eqb k k0) eqn:E0; cbn [lookup].
    + now rewrite str_eqb_refl.
    + rewrite E0. cbn in E. now apply IH.
  - induction m as [|[k0 v0] r IH]; cbn [app lookup].
    + now rewrite str_eqb_refl.
    + cbn [existsb fst] in E. apply orb_false_iff in E as [E0 E]. rewrite E0. now apply IH.
Qed.

Theorem apply_extends : forall n s j, json_le j (apply_defaults n s j).
Proof.
  induction n as [|n IH]; intros s j; [constructor 2|].
  destruct j as [| | | | |m]; try (constructor 2). rewrite apply_unfold.
  generalize (match s_properties s with Some ps => ps | None => [] end) as ps. intros ps.
  assert (Hgen : forall m1, (forall k v, lookup k m = Some v -> exists v', lookup k m1 = Some v' /\ json_le v v') ->
                 forall k v, lookup k m = Some v -> exists v', lookup k (fold_left (step n s) ps m1) = Some v' /\ json_le v v').
  { induction ps as [|kc r IHr]; intros m1 Hinv; cbn [fold_left]; [exact Hinv|].
    apply IHr. intros k v Hl. destruct (Hinv k v Hl) as (v1 & Hl1 & Hle1).
    destruct (str_eq_dec k (fst kc)) as [->|Hne].
    - unfold step. destruct (is_required s (fst kc)); [eauto|]. rewrite Hl1.
      rewrite lookup_obj_set_same. eexists. split; [reflexivity|]. eapply json_le_trans; [exact Hle1|apply IH].
    - rewrite step_other by exact Hne. eauto. }
  constructor. apply Hgen. intros k v Hl. exists v. split; [exact Hl|constructor 2].
Qed.
