(** C15: ApplyDefaults is idempotent. *)
From Coq Require Import List NArith ZArith QArith Bool Lia.
From JS Require Import Str StrFacts Lit Json JsonFacts Res GoValue Hash Schema CodecBase Basic Env Ann Validate Resolve Defaults DefaultsFacts.
Import ListNotations.
Open Scope list_scope.

Lemma wf_obj_intro m : NoDup (keys m) -> Forall (fun kv => json_wf (snd kv) = true) m -> json_wf (JObj m) = true.
Proof.
  intros Hn Hf. cbn [json_wf]. apply andb_true_iff. split; [now apply nodup_strs_NoDup|].
  induction Hf as [|[k v] r Hv _ IH]; [reflexivity|]. cbn in Hv. rewrite Hv. cbn [andb].
  apply IH. now inversion Hn.
Qed.

(** the value of a document is well formed: later duplicates replace earlier members *)
Lemma doc_value_fuel_wf : forall n d, json_wf (doc_value_fuel n d) = true.
Proof.
  induction n as [|n IH]; intros d; [reflexivity|]. destruct d as [| | | |l|m]; cbn [doc_value_fuel]; try reflexivity.
  - cbn [json_wf]. induction l as [|x r IHl]; [reflexivity|]. cbn [map]. now rewrite IH, IHl.
  - apply wf_obj_intro.
    + induction m as [|[k v] r IHm]; [constructor|].
      destruct (existsb (fun kv => str_eqb k (fst kv)) r) eqn:Ex; [exact IHm|].
      cbn [keys map fst]. constructor; [|exact IHm].
      intros Hin. apply not_true_iff_false in Ex. apply Ex. apply existsb_exists.
      (* the keys of the deduplicated tail are keys of the tail *)
      assert (Hsub : forall k', In k' (keys ((fix dedup (m : list (str * jdoc)) : list (str * json) :=
                 match m with
                 | [] => []
                 | (k, v) :: r => if existsb (fun kv => str_eqb k (fst kv)) r then dedup r else (k, doc_value_fuel n v) :: dedup r
                 end) r)) -> exists kv, In kv r /\ fst kv = k').
      { clear. induction r as [|[k2 v2] r2 IH2]; intros k' H; [contradiction|].
        destruct (existsb (fun kv => str_eqb k2 (fst kv)) r2).
        - destruct (IH2 k' H) as (kv & Hk & He). exists kv. split; [now right|exact He].
        - cbn [keys map fst] in H. destruct H as [<-|H]; [exists (k2, v2); split; [now left|reflexivity]|].
          destruct (IH2 k' H) as (kv & Hk & He). exists kv. split; [now right|exact He]. }
      destruct (Hsub k Hin) as (kv & Hkv & He). exists kv. split; [exact Hkv|]. rewrite He. apply str_eqb_refl.
    + induction m as [|[k v] r IHm]; [constructor|].
      destruct (existsb (fun kv => str_eqb k (fst kv)) r); [exact IHm|]. constructor; [apply IH|exact IHm].
Qed.

Lemma doc_value_wf d : json_wf (doc_value d) = true.
Proof. apply doc_value_fuel_wf. Qed.

(** obj_set on maps with distinct keys *)
Lemma existsb_key_In {A} k (m : list (str * A)) : existsb (fun kv => str_eqb k (fst kv)) m = true <-> In k (keys m).
Proof.
  unfold keys. rewrite existsb_exists. split.
  - intros ([k' v] & Hin & He). apply str_eqb_eq in He. cbn in He. subst. apply in_map_iff. exists (k', v). auto.
  - intros Hin. apply in_map_iff in Hin as ([k' v] & <- & Hin). exists (k', v). split; [exact Hin|apply str_eqb_refl].
Qed.

Lemma keys_obj_set k v m : keys (obj_set k v m) = if existsb (fun kv => str_eqb k (fst kv)) m then keys m else keys m ++ [k].
Proof.
  unfold obj_set. destruct (existsb _ m) eqn:E.
  - unfold keys. rewrite map_map. apply map_ext_in. intros [k' v'] _. cbn [fst].
    destruct (str_eqb k k') eqn:E2; [apply str_eqb_eq in E2; now subst|reflexivity].
  - unfold keys. now rewrite map_app.
Qed.

Lemma nodup_snoc {A} (l : list A) x : NoDup l -> ~ In x l -> NoDup (l ++ [x]).
Proof.
  induction l as [|y r IH]; intros Hn Hx; [repeat constructor; intros []|].
  inversion Hn; subst. cbn. constructor.
  - intros Hin. apply in_app_or in Hin as [Hin|[<-|[]]]; [contradiction|]. apply Hx. now left.
  - apply IH; [assumption|]. intros Hin. apply Hx. now right.
Qed.

Lemma obj_set_nodup k v m : NoDup (keys m) -> NoDup (keys (obj_set k v m)).
Proof.
  intros H. rewrite keys_obj_set. destruct (existsb _ m) eqn:E; [exact H|].
  apply nodup_snoc; [exact H|]. intros Hx. apply existsb_key_In in Hx. congruence.
Qed.

Lemma obj_set_values (P : json -> Prop) k v m : P v -> Forall (fun kv => P (snd kv)) m -> Forall (fun kv => P (snd kv)) (obj_set k v m).
Proof.
  intros Hv Hm. unfold obj_set. destruct (existsb _ m).
  - induction Hm as [|[k' v'] r Hh _ IH]; [constructor|]. cbn [map fst]. constructor; [|exact IH].
    destruct (str_eqb k k'); [exact Hv|exact Hh].
  - apply Forall_app. split; [exact Hm|repeat constructor; exact Hv].
Qed.

(** writing back the value a key already has changes nothing *)
Lemma obj_set_id k v m : NoDup (keys m) -> lookup k m = Some v -> obj_set k v m = m.
Proof.
  intros Hn Hl. unfold obj_set.
  assert (E : existsb (fun kv => str_eqb k (fst kv)) m = true).
  { apply existsb_key_In. apply lookup_In in Hl. unfold keys. apply in_map_iff. exists (k, v). auto. }
  rewrite E. clear E. induction m as [|[k' v'] r IH]; [reflexivity|]. cbn [map fst lookup] in *.
  inversion Hn as [|? ? Hnotin Hn']; subst.
  destruct (str_eqb k k') eqn:E2.
  - apply str_eqb_eq in E2. subst k'. injection Hl as ->. f_equal.
    (* no other entry has the key *)
    clear -Hnotin. induction r as [|[k2 v2] r2 IH2]; [reflexivity|]. cbn [map fst].
    destruct (str_eqb k k2) eqn:E3; [apply str_eqb_eq in E3; subst; exfalso; apply Hnotin; now left|].
    f_equal. apply IH2. intros H. apply Hnotin. now right.
  - f_equal. now apply IH.
Qed.

Definition mwf (m : list (str * json)) : Prop := NoDup (keys m) /\ Forall (fun kv => json_wf (snd kv) = true) m.

Lemma mwf_iff m : json_wf (JObj m) = true <-> mwf m.
Proof. split; [apply json_wf_obj|intros [H1 H2]; now apply wf_obj_intro]. Qed.

Lemma lookup_wf k m v : mwf m -> lookup k m = Some v -> json_wf v = true.
Proof. intros [_ Hf] Hl. apply lookup_In in Hl. rewrite Forall_forall in Hf. exact (Hf (k, v) Hl). Qed.

Lemma step_wf n s m kc :
  (forall s' j, json_wf j = true -> json_wf (apply_defaults n s' j) = true) ->
  mwf m -> mwf (step n s m kc).
Proof.
  intros IH [Hn Hf]. unfold step. destruct (is_required s (fst kc)); [split; assumption|].
  assert (Hset : forall v, json_wf v = true -> mwf (obj_set (fst kc) v m)).
  { intros v Hv. split; [now apply obj_set_nodup|now apply (obj_set_values (fun x => json_wf x = true))]. }
  destruct (lookup (fst kc) m) as [v|] eqn:El.
  - apply Hset, IH. eapply lookup_wf; [split; eassumption|exact El].
  - destruct (s_default (snd kc)) as [d|].
    + apply Hset, IH, doc_value_wf.
    + destruct (has_defaults n (snd kc)); [apply Hset, IH; reflexivity|split; assumption].
Qed.

Theorem apply_wf : forall n s j, json_wf j = true -> json_wf (apply_defaults n s j) = true.
Proof.
  induction n as [|n IH]; intros s j Hw; [exact Hw|].
  destruct j as [| | | | |m]; try exact Hw. rewrite apply_unfold. apply mwf_iff. apply mwf_iff in Hw.
  generalize (match s_properties s with Some ps => ps | None => [] end) as ps. intros ps.
  revert m Hw. induction ps as [|kc r IHr]; intros m Hw; [exact Hw|]. cbn [fold_left]. apply IHr. now apply step_wf.
Qed.

(** property maps come from Go maps: distinct keys at every level *)
Fixpoint props_nodup (fuel : nat) (s : schema) : Prop :=
  match fuel with
  | O => True
  | S n =>
      let ps := match s_properties s with Some ps => ps | None => [] end in
      NoDup (keys ps) /\ Forall (fun kc => props_nodup n (snd kc)) ps
  end.

(* what the first pass leaves at a non-required property *)
Definition settled (n : nat) (s : schema) (m : list (str * json)) (kc : str * schema) : Prop :=
  is_required s (fst kc) = false ->
  match lookup (fst kc) m with
  | Some v => exists x, json_wf x = true /\ v = apply_defaults n (snd kc) x
  | None => s_default (snd kc) = None /\ has_defaults n (snd kc) = false
  end.

Lemma step_settles n s m kc : mwf m -> settled n s (step n s m kc) kc.
Proof.
  intros Hm Hreq. unfold step. rewrite Hreq.
  destruct (lookup (fst kc) m) as [v|] eqn:El.
  - rewrite lookup_obj_set_same. exists v. split; [eapply lookup_wf; eauto|reflexivity].
  - destruct (s_default (snd kc)) as [d|].
    + rewrite lookup_obj_set_same. exists (doc_value d). split; [apply doc_value_wf|reflexivity].
    + destruct (has_defaults n (snd kc)) eqn:Eh.
      * rewrite lookup_obj_set_same. exists (JObj []). split; reflexivity.
      * rewrite El. split; reflexivity.
Qed.

Lemma first_pass n s :
  (forall s' j, json_wf j = true -> json_wf (apply_defaults n s' j) = true) ->
  forall l m, NoDup (keys l) -> mwf m ->
  forall kc, In kc l -> settled n s (fold_left (step n s) l m) kc.
Proof.
  intros Hwf. induction l as [|kc0 r IH]; intros m Hnd Hm kc Hin; [contradiction|].
  cbn [fold_left]. inversion Hnd as [|? ? Hnotin Hnd']; subst.
  destruct Hin as [->|Hin].
  - (* settled by its own step, untouched by the others *)
    assert (Hkeep : forall l' m', (forall kc', In kc' l' -> fst kc' <> fst kc) ->
              lookup (fst kc) (fold_left (step n s) l' m') = lookup (fst kc) m').
    { induction l' as [|kc' r' IH']; intros m' Hne; [reflexivity|]. cbn [fold_left].
      rewrite IH'; [|intros; apply Hne; now right]. apply step_other. intros He. apply (Hne kc' (or_introl eq_refl)). now symmetry. }
    unfold settled. rewrite Hkeep.
    + apply step_settles. exact Hm.
    + intros kc' Hin' He. apply Hnotin. rewrite <- He. unfold keys. now apply in_map.
  - apply IH; auto. now apply step_wf.
Qed.

Lemma fold_fixed {A B} (f : A -> B -> A) l a : (forall x, In x l -> f a x = a) -> fold_left f l a = a.
Proof.
  induction l as [|x r IH]; intros H; [reflexivity|]. cbn [fold_left]. rewrite (H x (or_introl eq_refl)). apply IH.
  intros y Hy. apply H. now right.
Qed.

(** C15: applying the defaults a second time changes nothing *)
Theorem apply_idempotent : forall n s j, props_nodup n s -> json_wf j = true ->
  apply_defaults n s (apply_defaults n s j) = apply_defaults n s j.
Proof.
  induction n as [|n IH]; intros s j Hp Hw; [reflexivity|].
  destruct j as [| | | | |m]; try reflexivity. rewrite !apply_unfold. f_equal.
  cbn [props_nodup] in Hp. destruct Hp as [Hnd Hsub].
  set (ps := match s_properties s with Some ps => ps | None => [] end) in *.
  set (M := fold_left (step n s) ps m).
  apply mwf_iff in Hw.
  assert (HM : mwf M).
  { unfold M. clear -Hw. revert m Hw. induction ps as [|kc r IHr]; intros m Hw; [exact Hw|]. cbn [fold_left]. apply IHr.
    apply step_wf; [apply apply_wf|exact Hw]. }
  apply fold_fixed. intros kc Hin.
  pose proof (first_pass n s (apply_wf n) ps m Hnd Hw kc Hin) as Hs. fold M in Hs.
  assert (Er0 : is_required s (fst kc) = true \/ is_required s (fst kc) = false) by (destruct (is_required s (fst kc)); auto).
  unfold step. destruct Er0 as [Er|Er]; rewrite Er; [reflexivity|]. specialize (Hs Er).
  destruct (lookup (fst kc) M) as [v|] eqn:El.
  - destruct Hs as (x & Hx & ->).
    rewrite Forall_forall in Hsub. rewrite (IH (snd kc) x (Hsub kc Hin) Hx).
    apply obj_set_id; [exact (proj1 HM)|exact El].
  - destruct Hs as [-> ->]. reflexivity.
Qed.

Corollary ApplyDefaults_idempotent s j : props_nodup (S (size s)) s -> json_wf j = true ->
  ApplyDefaults s (ApplyDefaults s j) = ApplyDefaults s j.
Proof. apply apply_idempotent. Qed.

(** what ApplyDefaults inserts for an absent, non-required property: its declared default,
    completed with the nested defaults - or, without a default of its own, an object completed
    with the defaults below it, if there are any - and nothing otherwise *)
Theorem inserted_value n s : forall l m k sub,
  NoDup (keys l) -> In (k, sub) l -> is_required s k = false -> lookup k m = None ->
  lookup k (fold_left (step n s) l m) =
  match s_default sub with
  | Some d => Some (apply_defaults n sub (doc_value d))
  | None => if has_defaults n sub then Some (apply_defaults n sub (JObj [])) else None
  end.
Proof.
  induction l as [|kc0 r IH]; intros m k sub Hnd Hin Hreq Hl; [contradiction|].
  cbn [fold_left]. inversion Hnd as [|? ? Hnotin Hnd']; subst.
  destruct Hin as [->|Hin].
  - assert (Hkeep : forall l' m', (forall kc', In kc' l' -> fst kc' <> k) ->
              lookup k (fold_left (step n s) l' m') = lookup k m').
    { induction l' as [|kc' r' IH']; intros m' Hne; [reflexivity|]. cbn [fold_left].
      rewrite IH'; [|intros; apply Hne; now right]. apply step_other. intros He. apply (Hne kc' (or_introl eq_refl)). now symmetry. }
    rewrite Hkeep.
    + unfold step. cbn [fst snd]. rewrite Hreq, Hl.
      destruct (s_default sub); [apply lookup_obj_set_same|].
      destruct (has_defaults n sub); [apply lookup_obj_set_same|exact Hl].
    + intros kc' Hin' He. apply Hnotin. cbn [fst]. rewrite <- He. unfold keys. now apply in_map.
  - apply IH; auto. rewrite step_other; [exact Hl|].
    intros He. apply Hnotin. rewrite <- He. unfold keys. apply in_map_iff. exists (k, sub). auto.
Qed.
