From Coq Require Import List NArith Bool Lia Permutation Sorted.
From JS Require Import Str.
Import ListNotations.

Lemma str_eqb_refl a : str_eqb a a = true.
Proof. induction a as [|x a IH]; cbn; [reflexivity|]. now rewrite N.eqb_refl, IH. Qed.

Lemma str_eqb_eq a b : str_eqb a b = true <-> a = b.
Proof.
  revert b; induction a as [|x a IH]; intros [|y b]; cbn; split; intro H; try easy.
  - apply andb_true_iff in H as [H1 H2]. apply N.eqb_eq in H1. apply IH in H2. now subst.
  - inversion H; subst. now rewrite N.eqb_refl, (proj2 (IH b)).
Qed.

Lemma str_eqb_neq a b : str_eqb a b = false <-> a <> b.
Proof.
  split; intro H.
  - intro E. apply str_eqb_eq in E. congruence.
  - destruct (str_eqb a b) eqn:E; [|reflexivity]. apply str_eqb_eq in E. contradiction.
Qed.

Lemma str_eqb_sym a b : str_eqb a b = str_eqb b a.
Proof.
  destruct (str_eqb a b) eqn:E.
  - apply str_eqb_eq in E; subst. now rewrite str_eqb_refl.
  - symmetry. apply str_eqb_neq. apply str_eqb_neq in E. congruence.
Qed.

Lemma str_eq_dec (a b : str) : {a = b} + {a <> b}.
Proof. destruct (str_eqb a b) eqn:E; [left; now apply str_eqb_eq | right; now apply str_eqb_neq]. Qed.

Lemma str_cmp_refl a : str_cmp a a = Eq.
Proof. induction a as [|x a IH]; cbn; [reflexivity|]. now rewrite N.compare_refl. Qed.

Lemma str_cmp_eq a b : str_cmp a b = Eq <-> a = b.
Proof.
  revert b; induction a as [|x a IH]; intros [|y b]; cbn; split; intro H; try easy.
  - destruct (N.compare x y) eqn:C; try easy. apply N.compare_eq in C. apply IH in H. now subst.
  - inversion H; subst. rewrite N.compare_refl. now apply IH.
Qed.

Lemma str_cmp_antisym a b : str_cmp b a = CompOpp (str_cmp a b).
Proof.
  revert b; induction a as [|x a IH]; intros [|y b]; cbn; try reflexivity.
  rewrite (N.compare_antisym x y). destruct (N.compare x y); cbn; auto.
Qed.

Lemma str_cmp_trans_lt a b c : str_cmp a b = Lt -> str_cmp b c = Lt -> str_cmp a c = Lt.
Proof.
  revert b c; induction a as [|x a IH]; intros [|y b] [|z c]; cbn; try easy.
  destruct (N.compare x y) eqn:C1; destruct (N.compare y z) eqn:C2; try easy; intros H1 H2.
  - apply N.compare_eq in C1, C2; subst. rewrite N.compare_refl. eauto.
  - apply N.compare_eq in C1; subst. now rewrite C2.
  - apply N.compare_eq in C2; subst. now rewrite C1.
  - rewrite N.compare_lt_iff in *. assert (x < z)%N by lia. apply N.compare_lt_iff in H. now rewrite H.
Qed.

Lemma str_leb_total a b : str_leb a b = true \/ str_leb b a = true.
Proof. unfold str_leb. rewrite (str_cmp_antisym a b). destruct (str_cmp a b); cbn; auto. Qed.

Lemma str_leb_antisym a b : str_leb a b = true -> str_leb b a = true -> a = b.
Proof.
  unfold str_leb. rewrite (str_cmp_antisym a b). destruct (str_cmp a b) eqn:E; cbn; try easy.
  intros _ _. now apply str_cmp_eq.
Qed.

Lemma str_leb_trans a b c : str_leb a b = true -> str_leb b c = true -> str_leb a c = true.
Proof.
  unfold str_leb. destruct (str_cmp a b) eqn:E1; try easy; destruct (str_cmp b c) eqn:E2; try easy; intros _ _.
  - apply str_cmp_eq in E1, E2; subst. now rewrite str_cmp_refl.
  - apply str_cmp_eq in E1; subst. now rewrite E2.
  - apply str_cmp_eq in E2; subst. now rewrite E1.
  - now rewrite (str_cmp_trans_lt _ _ _ E1 E2).
Qed.

Lemma str_leb_refl a : str_leb a a = true.
Proof. unfold str_leb. now rewrite str_cmp_refl. Qed.

Lemma mem_str_In x l : mem_str x l = true <-> In x l.
Proof.
  induction l as [|y r IH]; cbn; [easy|]. rewrite orb_true_iff, IH, str_eqb_eq. intuition congruence.
Qed.

Lemma mem_str_false x l : mem_str x l = false <-> ~ In x l.
Proof. rewrite <- mem_str_In. destruct (mem_str x l); intuition congruence. Qed.

Lemma nodup_strs_NoDup l : nodup_strs l = true <-> NoDup l.
Proof.
  induction l as [|x r IH]; cbn.
  - split; [constructor|reflexivity].
  - rewrite andb_true_iff, negb_true_iff, mem_str_false, IH. split.
    + intros [H1 H2]. now constructor.
    + intros H. inversion H; auto.
Qed.

(** generic insertion-sort facts *)
Section SortFacts.
  Context {A : Type} (leb : A -> A -> bool).
  Hypothesis leb_total : forall a b, leb a b = true \/ leb b a = true.
  Hypothesis leb_trans : forall a b c, leb a b = true -> leb b c = true -> leb a c = true.

  Lemma insert_perm x l : Permutation (x :: l) (insert leb x l).
  Proof.
    induction l as [|y r IH]; cbn; [reflexivity|].
    destruct (leb x y); [reflexivity|].
    rewrite perm_swap. now constructor.
  Qed.

  Lemma isort_perm l : Permutation l (isort leb l).
  Proof.
    induction l as [|x r IH]; cbn; [constructor|].
    rewrite <- insert_perm. now constructor.
  Qed.

  Definition lebP a b := leb a b = true.

  Lemma insert_sorted x l : StronglySorted lebP l -> StronglySorted lebP (insert leb x l).
  Proof.
    induction l as [|y r IH]; cbn; intros Hs.
    - constructor; constructor.
    - inversion Hs as [|? ? Hs' Hall]; subst.
      destruct (leb x y) eqn:E.
      + constructor; [assumption|]. constructor; [exact E|].
        rewrite Forall_forall in *. intros z Hz. eapply leb_trans; [exact E|]. now apply Hall.
      + constructor; [now apply IH|].
        assert (Hyx : leb y x = true) by (destruct (leb_total x y); congruence).
        rewrite Forall_forall in *. intros z Hz.
        apply (Permutation_in _ (Permutation_sym (insert_perm x r))) in Hz.
        destruct Hz as [<-|Hz]; [exact Hyx|now apply Hall].
  Qed.

  Lemma isort_sorted l : StronglySorted lebP (isort leb l).
  Proof. induction l as [|x r IH]; cbn; [constructor|now apply insert_sorted]. Qed.

  Hypothesis leb_antisym : forall a b, leb a b = true -> leb b a = true -> a = b.

  Lemma sorted_perm_eq l1 l2 :
    StronglySorted lebP l1 -> StronglySorted lebP l2 -> Permutation l1 l2 -> l1 = l2.
  Proof.
    revert l2; induction l1 as [|x r IH]; intros l2 H1 H2 HP.
    - apply Permutation_nil in HP. now subst.
    - destruct l2 as [|y r2]; [apply Permutation_sym, Permutation_nil in HP; discriminate|].
      inversion H1 as [|? ? H1' Hall1]; inversion H2 as [|? ? H2' Hall2]; subst.
      assert (x = y).
      { assert (Hx : In x (y :: r2)) by (eapply Permutation_in; [exact HP|now left]).
        assert (Hy : In y (x :: r)) by (eapply Permutation_in; [apply Permutation_sym; exact HP|now left]).
        rewrite Forall_forall in *.
        destruct Hx as [->|Hx]; [reflexivity|]. destruct Hy as [->|Hy]; [reflexivity|].
        apply leb_antisym; [now apply Hall1 | now apply Hall2]. }
      subst. f_equal. apply IH; auto. now apply Permutation_cons_inv in HP.
  Qed.

  Lemma isort_perm_eq l1 l2 : Permutation l1 l2 -> isort leb l1 = isort leb l2.
  Proof.
    intros HP. apply sorted_perm_eq; try apply isort_sorted.
    rewrite <- (isort_perm l1), <- (isort_perm l2). exact HP.
  Qed.
End SortFacts.

Lemma sort_strs_perm_eq l1 l2 : Permutation l1 l2 -> sort_strs l1 = sort_strs l2.
Proof.
  apply isort_perm_eq.
  - exact str_leb_total.
  - exact str_leb_trans.
  - exact str_leb_antisym.
Qed.

Lemma sort_strs_perm l : Permutation l (sort_strs l).
Proof. apply isort_perm. Qed.

Lemma sort_strs_sorted l : StronglySorted (fun a b => str_leb a b = true) (sort_strs l).
Proof. apply isort_sorted; [exact str_leb_total | exact str_leb_trans]. Qed.

Lemma lookup_In {A} k (m : list (str * A)) v : lookup k m = Some v -> In (k, v) m.
Proof.
  induction m as [|[k' v'] r IH]; cbn; [easy|].
  destruct (str_eqb k k') eqn:E.
  - intros [= ->]. apply str_eqb_eq in E. subst. now left.
  - intros H. right. auto.
Qed.

Lemma lookup_None {A} k (m : list (str * A)) : lookup k m = None <-> ~ In k (keys m).
Proof.
  induction m as [|[k' v'] r IH]; cbn; [easy|].
  destruct (str_eqb k k') eqn:E.
  - apply str_eqb_eq in E. subst. intuition congruence.
  - apply str_eqb_neq in E. rewrite IH. intuition congruence.
Qed.

Lemma In_lookup {A} k v (m : list (str * A)) : NoDup (keys m) -> In (k, v) m -> lookup k m = Some v.
Proof.
  induction m as [|[k' v'] r IH]; cbn; [easy|]. intros Hnd [H|H].
  - inversion H; subst. now rewrite str_eqb_refl.
  - inversion Hnd as [|? ? Hni Hnd']; subst.
    destruct (str_eqb k k') eqn:E.
    + apply str_eqb_eq in E; subst. exfalso. apply Hni. change (In (fst (k', v)) (map fst r)). now apply in_map.
    + auto.
Qed.

Lemma lookup_perm {A} k (m1 m2 : list (str * A)) :
  NoDup (keys m1) -> Permutation m1 m2 -> lookup k m1 = lookup k m2.
Proof.
  intros Hnd HP.
  assert (Hnd2 : NoDup (keys m2)) by (eapply Permutation_NoDup; [apply Permutation_map; exact HP|exact Hnd]).
  destruct (lookup k m1) eqn:E1.
  - apply lookup_In in E1. symmetry. apply In_lookup; auto. eapply Permutation_in; eauto.
  - destruct (lookup k m2) eqn:E2; [|reflexivity].
    apply lookup_In in E2. apply Permutation_sym in HP. eapply Permutation_in in E2; eauto.
    apply In_lookup in E2; auto. congruence.
Qed.

(** sorting association lists by key: a function of the key/value *set* when keys are distinct *)
Section SortRestricted.
  Context {A : Type} (leb : A -> A -> bool).
  Hypothesis leb_total : forall a b, leb a b = true \/ leb b a = true.
  Hypothesis leb_trans : forall a b c, leb a b = true -> leb b c = true -> leb a c = true.

  Lemma sorted_perm_eq_on l1 l2 :
    (forall a b, In a l1 -> In b l1 -> leb a b = true -> leb b a = true -> a = b) ->
    StronglySorted (lebP leb) l1 -> StronglySorted (lebP leb) l2 -> Permutation l1 l2 -> l1 = l2.
  Proof.
    revert l2; induction l1 as [|x r IH]; intros l2 Hanti H1 H2 HP.
    - apply Permutation_nil in HP. now subst.
    - destruct l2 as [|y r2]; [apply Permutation_sym, Permutation_nil in HP; discriminate|].
      inversion H1 as [|? ? H1' Hall1]; inversion H2 as [|? ? H2' Hall2]; subst.
      assert (Hy : In y (x :: r)) by (eapply Permutation_in; [apply Permutation_sym; exact HP|now left]).
      assert (Hx : In x (y :: r2)) by (eapply Permutation_in; [exact HP|now left]).
      assert (x = y).
      { rewrite Forall_forall in *.
        destruct Hx as [->|Hx]; [reflexivity|]. destruct Hy as [->|Hy]; [reflexivity|].
        apply Hanti; [now left|now right| now apply Hall1 | now apply Hall2]. }
      subst. f_equal. apply IH; auto.
      + intros a b Ha Hb. apply Hanti; now right.
      + now apply Permutation_cons_inv in HP.
  Qed.

  Lemma isort_perm_eq_on l1 l2 :
    (forall a b, In a l1 -> In b l1 -> leb a b = true -> leb b a = true -> a = b) ->
    Permutation l1 l2 -> isort leb l1 = isort leb l2.
  Proof.
    intros Hanti HP. apply sorted_perm_eq_on; try (apply isort_sorted; assumption).
    - intros a b Ha Hb. apply Hanti; eapply Permutation_in; try eassumption; apply Permutation_sym, isort_perm.
    - rewrite <- (isort_perm leb l1), <- (isort_perm leb l2). exact HP.
  Qed.
End SortRestricted.

Lemma sort_by_key_perm_eq {A} (m1 m2 : list (str * A)) :
  NoDup (keys m1) -> Permutation m1 m2 -> sort_by_key m1 = sort_by_key m2.
Proof.
  intros Hnd HP. unfold sort_by_key. apply isort_perm_eq_on; auto.
  - intros a b. apply str_leb_total.
  - intros a b c. apply str_leb_trans.
  - intros [ka va] [kb vb] Ha Hb H1 H2. cbn in *.
    assert (ka = kb) by now apply str_leb_antisym. subst.
    apply In_lookup in Ha, Hb; auto. congruence.
Qed.

Lemma sort_by_key_perm {A} (m : list (str * A)) : Permutation m (sort_by_key m).
Proof. apply isort_perm. Qed.

Lemma filter_perm {A} (f : A -> bool) l1 l2 : Permutation l1 l2 -> Permutation (filter f l1) (filter f l2).
Proof.
  induction 1; cbn.
  - constructor.
  - destruct (f x); [now constructor|assumption].
  - destruct (f x), (f y); try constructor; try apply Permutation_refl. 
  - etransitivity; eassumption.
Qed.

Lemma mem_str_perm x l1 l2 : Permutation l1 l2 -> mem_str x l1 = mem_str x l2.
Proof.
  intros HP. destruct (mem_str x l1) eqn:E1; destruct (mem_str x l2) eqn:E2; try reflexivity.
  - apply mem_str_In in E1. apply mem_str_false in E2. exfalso. apply E2. eapply Permutation_in; eauto.
  - apply mem_str_In in E2. apply mem_str_false in E1. exfalso. apply E1.
    eapply Permutation_in; [apply Permutation_sym; exact HP|exact E2].
Qed.
