(** JSON values.  [json] is the mathematical JSON value (numbers are exact
    rationals; an object is an association list whose well-formedness condition is
    distinct keys).  [jdoc] is what a JSON text is: members ordered, duplicates
    possible; it is the interface of the codec model. *)
From Coq Require Import List NArith ZArith QArith Bool.
From JS Require Import Str.
Import ListNotations.
Open Scope list_scope.

Inductive json :=
| JNull
| JBool (b : bool)
| JNum (q : Q)
| JStr (s : str)
| JArr (l : list json)
| JObj (m : list (str * json)).

Definition q_eqb (a b : Q) : bool := Qeq_bool a b.
Definition q_leb (a b : Q) : bool := Qle_bool a b.
Definition q_ltb (a b : Q) : bool := negb (Qle_bool b a).
Definition q_is_int (q : Q) : bool := Z.eqb (Z.modulo (Qnum q) (Zpos (Qden q))) 0.

(** executable JSON equality (specification side: objects are unordered maps) *)
Fixpoint json_eqb (a b : json) {struct a} : bool :=
  match a, b with
  | JNull, JNull => true
  | JBool x, JBool y => Bool.eqb x y
  | JNum x, JNum y => q_eqb x y
  | JStr x, JStr y => str_eqb x y
  | JArr l1, JArr l2 =>
      (fix go (l1 l2 : list json) {struct l1} : bool :=
         match l1, l2 with
         | [], [] => true
         | x :: r1, y :: r2 => json_eqb x y && go r1 r2
         | _, _ => false
         end) l1 l2
  | JObj m1, JObj m2 =>
      Nat.eqb (length m1) (length m2) &&
      (fix go (m : list (str * json)) {struct m} : bool :=
         match m with
         | [] => true
         | (k, v) :: r =>
             match lookup k m2 with
             | Some v' => json_eqb v v'
             | None => false
             end && go r
         end) m1
  | _, _ => false
  end.

(** well-formed: object keys distinct, recursively *)
Fixpoint json_wf (a : json) : bool :=
  match a with
  | JArr l => (fix go (l : list json) : bool := match l with [] => true | x :: r => json_wf x && go r end) l
  | JObj m =>
      nodup_strs (keys m) &&
      (fix go (m : list (str * json)) : bool := match m with [] => true | (_, v) :: r => json_wf v && go r end) m
  | _ => true
  end.

(** declarative JSON equality *)
Inductive jeq : json -> json -> Prop :=
| jeq_null : jeq JNull JNull
| jeq_bool b : jeq (JBool b) (JBool b)
| jeq_num x y : Qeq x y -> jeq (JNum x) (JNum y)
| jeq_str s : jeq (JStr s) (JStr s)
| jeq_arr l1 l2 : Forall2 jeq l1 l2 -> jeq (JArr l1) (JArr l2)
| jeq_obj m1 m2 :
    (forall k, lookup k m1 = None <-> lookup k m2 = None) ->
    (forall k v1 v2, lookup k m1 = Some v1 -> lookup k m2 = Some v2 -> jeq v1 v2) ->
    jeq (JObj m1) (JObj m2).

(** JSON documents: ordered members, duplicates kept.  Numbers carry their exact value
    and whether the literal had a fraction/exponent part (the only spelling fact the
    codec looks at: [integer.UnmarshalJSON] tests for a '.'). *)
Inductive numform := NFInt | NFFrac | NFExp.
Inductive jdoc :=
| DNull
| DBool (b : bool)
| DNum (f : numform) (q : Q)
| DStr (s : str)
| DArr (l : list jdoc)
| DObj (m : list (str * jdoc)).

Fixpoint jdoc_size (d : jdoc) : nat :=
  match d with
  | DArr l => S (fold_right (fun x a => jdoc_size x + a)%nat 0%nat l)
  | DObj m => S (fold_right (fun kv a => jdoc_size (snd kv) + a)%nat 0%nat m)
  | _ => 1%nat
  end.
