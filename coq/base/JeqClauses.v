(** The clauses of JSON value equality [jeq], one per kind of value (C11): null only
    equals null, booleans and strings by value, numbers by mathematical value, arrays
    element-wise in order, objects as unordered sets of members; values of different kinds
    are never equal. *)
From Coq Require Import List QArith Bool.
From JS Require Import Str Json.
Import ListNotations.

Inductive jkind := KNull | KBool | KNum | KStr | KArr | KObj.
Definition jkind_of (v : json) : jkind :=
  match v with
  | JNull => KNull | JBool _ => KBool | JNum _ => KNum | JStr _ => KStr | JArr _ => KArr | JObj _ => KObj
  end.

Lemma jeq_same_kind a b : jeq a b -> jkind_of a = jkind_of b.
Proof. intros H. inversion H; reflexivity. Qed.

Lemma jeq_null_iff v : jeq JNull v <-> v = JNull.
Proof. split; intros H; [inversion H; reflexivity|subst; constructor]. Qed.

Lemma jeq_bool_iff b c : jeq (JBool b) (JBool c) <-> b = c.
Proof. split; intros H; [inversion H; reflexivity|subst; constructor]. Qed.

Lemma jeq_num_iff x y : jeq (JNum x) (JNum y) <-> Qeq x y.
Proof. split; intros H; [inversion H; assumption|constructor; assumption]. Qed.

Lemma jeq_str_iff s t : jeq (JStr s) (JStr t) <-> s = t.
Proof. split; intros H; [inversion H; reflexivity|subst; constructor]. Qed.

Lemma jeq_arr_iff l1 l2 : jeq (JArr l1) (JArr l2) <-> Forall2 jeq l1 l2.
Proof. split; intros H; [inversion H; assumption|constructor; assumption]. Qed.

Lemma jeq_obj_iff m1 m2 :
  jeq (JObj m1) (JObj m2) <->
  (forall k, lookup k m1 = None <-> lookup k m2 = None) /\
  (forall k v1 v2, lookup k m1 = Some v1 -> lookup k m2 = Some v2 -> jeq v1 v2).
Proof.
  split; intros H.
  - inversion H; subst. split; assumption.
  - destruct H as [H1 H2]. constructor; assumption.
Qed.

Lemma jeq_clauses :
  (forall v, jeq JNull v <-> v = JNull) /\
  (forall b c, jeq (JBool b) (JBool c) <-> b = c) /\
  (forall x y, jeq (JNum x) (JNum y) <-> Qeq x y) /\
  (forall s t, jeq (JStr s) (JStr t) <-> s = t) /\
  (forall l1 l2, jeq (JArr l1) (JArr l2) <-> Forall2 jeq l1 l2) /\
  (forall m1 m2, jeq (JObj m1) (JObj m2) <->
     (forall k, lookup k m1 = None <-> lookup k m2 = None) /\
     (forall k v1 v2, lookup k m1 = Some v1 -> lookup k m2 = Some v2 -> jeq v1 v2)) /\
  (forall a b, jeq a b -> jkind_of a = jkind_of b).
Proof.
  exact (conj jeq_null_iff (conj jeq_bool_iff (conj jeq_num_iff (conj jeq_str_iff
        (conj jeq_arr_iff (conj jeq_obj_iff jeq_same_kind)))))).
Qed.
