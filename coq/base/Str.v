(** Strings are lists of Unicode code points (N).  Go's byte order on valid
    UTF-8 strings coincides with lexicographic code-point order. *)
From Coq Require Import List NArith Bool Lia.
Import ListNotations.

Definition str := list N.

Fixpoint str_eqb (a b : str) : bool :=
  match a, b with
  | [], [] => true
  | x :: a', y :: b' => N.eqb x y && str_eqb a' b'
  | _, _ => false
  end.

Fixpoint str_cmp (a b : str) : comparison :=
  match a, b with
  | [], [] => Eq
  | [], _ :: _ => Lt
  | _ :: _, [] => Gt
  | x :: a', y :: b' =>
      match N.compare x y with
      | Eq => str_cmp a' b'
      | c => c
      end
  end.

Definition str_leb (a b : str) : bool :=
  match str_cmp a b with Gt => false | _ => true end.
Definition str_ltb (a b : str) : bool :=
  match str_cmp a b with Lt => true | _ => false end.

Fixpoint mem_str (x : str) (l : list str) : bool :=
  match l with
  | [] => false
  | y :: r => str_eqb x y || mem_str x r
  end.

Fixpoint is_prefix (p s : str) : bool :=
  match p, s with
  | [], _ => true
  | x :: p', y :: s' => N.eqb x y && is_prefix p' s'
  | _ :: _, [] => false
  end.

(* association lists keyed by strings; first match wins *)
Fixpoint lookup {A} (k : str) (m : list (str * A)) : option A :=
  match m with
  | [] => None
  | (k', v) :: r => if str_eqb k k' then Some v else lookup k r
  end.

Definition keys {A} (m : list (str * A)) : list str := map fst m.

Fixpoint remove_key {A} (k : str) (m : list (str * A)) : list (str * A) :=
  match m with
  | [] => []
  | (k', v) :: r => if str_eqb k k' then remove_key k r else (k', v) :: remove_key k r
  end.

(* insertion sort on an arbitrary boolean order *)
Section Sort.
  Context {A : Type} (leb : A -> A -> bool).
  Fixpoint insert (x : A) (l : list A) : list A :=
    match l with
    | [] => [x]
    | y :: r => if leb x y then x :: l else y :: insert x r
    end.
  Fixpoint isort (l : list A) : list A :=
    match l with
    | [] => []
    | x :: r => insert x (isort r)
    end.
End Sort.

Definition sort_strs (l : list str) : list str := isort str_leb l.
Definition sort_by_key {A} (m : list (str * A)) : list (str * A) :=
  isort (fun a b => str_leb (fst a) (fst b)) m.

Fixpoint nodup_strs (l : list str) : bool :=
  match l with
  | [] => true
  | x :: r => negb (mem_str x r) && nodup_strs r
  end.

Fixpoint mem_nat (i : nat) (l : list nat) : bool :=
  match l with
  | [] => false
  | j :: r => Nat.eqb i j || mem_nat i r
  end.
