(** String literals as code-point lists (ASCII only): [lit "integer"%lit]. *)
From Coq Require Import List NArith Ascii String.
From Coq.Strings Require Import Byte.
From JS Require Import Str.
Declare Scope lit_scope.
Delimit Scope lit_scope with lit.
String Notation string string_of_list_byte list_byte_of_string : lit_scope.
Definition lit (s : string) : str := List.map N_of_ascii (list_ascii_of_string s).
