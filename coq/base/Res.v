(** Results of the modelled entry points. *)
Inductive res (A : Type) :=
| Ok (a : A)
| Err              (* the Go function returned a non-nil error *)
| Panic            (* the Go function panicked *)
| OutOfFuel.       (* the model's recursion budget ran out (excluded by the theorems) *)
Arguments Ok {A} a.
Arguments Err {A}.
Arguments Panic {A}.
Arguments OutOfFuel {A}.

Definition bind {A B} (r : res A) (f : A -> res B) : res B :=
  match r with
  | Ok a => f a
  | Err => Err
  | Panic => Panic
  | OutOfFuel => OutOfFuel
  end.

(** run a sub-computation whose error is tolerated by the caller *)
Definition attempt {A B} (r : res A) (on_ok : A -> res B) (on_err : res B) : res B :=
  match r with
  | Ok a => on_ok a
  | Err => on_err
  | Panic => Panic
  | OutOfFuel => OutOfFuel
  end.

Notation "x <- r ;; k" := (bind r (fun x => k)) (at level 61, r at next level, right associativity).
Notation "r ;;; k" := (bind r (fun _ => k)) (at level 61, right associativity).

Definition guard (b : bool) : res unit := if b then Ok tt else Err.
