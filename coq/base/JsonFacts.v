(** JSON equality: the executable [json_eqb] decides the declarative [jeq] on well-formed
    values; [jeq] is an equivalence relation (C11). *)
From Coq Require Import List NArith ZArith QArith Bool Lia Permutation.
From JS Require Import Str StrFacts Json.
Import ListNotations.
Open Scope list_scope.

Section JsonInd.
  Variable P : json -> Prop.
  Hypothesis HNull : P JNull.
  Hypothesis HBool : forall b, P (JBool b).
  Hypothesis HNum : forall q, P (JNum q).
  Hypothesis HStr : forall s, P (JStr s).
  Hypothesis HArr : forall l, Forall P l -> P (JArr l).
  Hypothesis HObj : forall m, Forall (fun kv => P (snd kv)) m -> P (JObj m).
  Fixpoint json_ind' (j : json) : P j :=
    match j with
    | JNull => HNull
    | JBool b => HBool b
    | JNum q => HNum q
    | JStr s => HStr s
    | JArr l => HArr l ((fix go (l : list json) : Forall P l :=
                           match l with [] => Forall_nil _ | x :: r => Forall_cons x (json_ind' x) (go r) end) l)
    | JObj m => HObj m ((fix go (m : list (str * json)) : Forall (fun kv => P (snd kv)) m :=
                           match m with [] => Forall_nil _ | kv :: r => Forall_cons kv (json_ind' (snd kv)) (go r) end) m)
    end.
End JsonInd.

Lemma json_wf_arr l : json_wf (JArr l) = true -> Forall (fun x => json_wf x = true) l.
Proof.
  cbn. induction l as [|x r IH]; intros H; [constructor|].
  apply andb_true_iff in H as [H1 H2]. constructor; auto.
Qed.

Lemma json_wf_obj m : json_wf (JObj m) = true -> NoDup (keys m) /\ Forall (fun kv => json_wf (snd kv) = true) m.
Proof.
  cbn. intros H. apply andb_true_iff in H as [H1 H2]. split; [now apply nodup_strs_NoDup|].
  clear H1. induction m as [|[k v] r IH]; [constructor|].
  apply andb_true_iff in H2 as [H2 H3]. constructor; auto.
Qed.

(* the object part of json_eqb *)
Definition obj_go (eqb : json -> json -> bool) (m2 : list (str * json)) : list (str * json) -> bool :=
  fix go (m : list (str * json)) : bool :=
    match m with
    | [] => true
    | (k, v) :: r => match lookup k m2 with Some v' => eqb v v' | None => false end && go r
    end.

Lemma obj_go_forall eqb m2 m :
  obj_go eqb m2 m = true <-> (forall k v, In (k, v) m -> exists v', lookup k m2 = Some v' /\ eqb v v' = true).
Proof.
  induction m as [|[k0 v0] r IH]; cbn.
  - split; [intros _ k v []|reflexivity].
  - rewrite andb_true_iff, IH. split.
    + intros [H1 H2] k v [[= <- <-]|Hin]; [|now apply H2].
      destruct (lookup k0 m2) as [v'|]; [eauto|discriminate].
    + intros H. split.
      * destruct (H k0 v0 (or_introl eq_refl)) as (v' & -> & He). exact He.
      * intros k v Hin. apply H. now right.
Qed.

Lemma same_keys_perm {A B} (m1 : list (str * A)) (m2 : list (str * B)) :
  NoDup (keys m1) -> NoDup (keys m2) ->
  (forall k, lookup k m1 = None <-> lookup k m2 = None) -> Permutation (keys m1) (keys m2).
Proof.
  intros H1 H2 H. apply NoDup_Permutation; auto.
  intros k. split; intros Hk.
  - destruct (lookup k m2) eqn:E; [apply lookup_In in E; unfold keys; apply in_map_iff; eexists; split; [|exact E]; reflexivity|].
    apply H in E. apply lookup_None in E. contradiction.
  - destruct (lookup k m1) eqn:E; [apply lookup_In in E; unfold keys; apply in_map_iff; eexists; split; [|exact E]; reflexivity|].
    apply H in E. apply lookup_None in E. contradiction.
Qed.

Theorem json_eqb_jeq : forall a b, json_wf a = true -> json_wf b = true -> (json_eqb a b = true <-> jeq a b).
Proof.
  induction a using json_ind'; intros b0 Hwa Hwb.
  - destruct b0; cbn; split; intros H; try discriminate; try constructor; inversion H.
  - destruct b0 as [|b'| | | |]; cbn; split; intros H; try discriminate; try (inversion H; fail).
    + apply Bool.eqb_prop in H. subst. constructor.
    + inversion H; subst. apply Bool.eqb_reflx.
  - destruct b0 as [| |q'| | |]; cbn; split; intros H; try discriminate; try (inversion H; fail).
    + constructor. now apply Qeq_bool_iff.
    + inversion H; subst. now apply Qeq_bool_iff.
  - destruct b0 as [| | |s'| |]; cbn; split; intros H; try discriminate; try (inversion H; fail).
    + apply str_eqb_eq in H. subst. constructor.
    + inversion H; subst. apply str_eqb_refl.
  - destruct b0 as [| | | |l2|]; cbn [json_eqb]; try (split; intros Hx; [discriminate|inversion Hx]).
    apply json_wf_arr in Hwa. apply json_wf_arr in Hwb.
    revert l2 Hwb. induction H as [|x l1 Hx Hl IH]; intros [|y l2] Hwb; cbn.
    + split; intros; [constructor; constructor|reflexivity].
    + split; intros Hq; [discriminate|inversion Hq as [| | | |? ? HF|]; inversion HF].
    + split; intros Hq; [discriminate|inversion Hq as [| | | |? ? HF|]; inversion HF].
    + inversion Hwa as [|? ? Hwx Hwl]; inversion Hwb as [|? ? Hwy Hwl2]; subst.
      rewrite andb_true_iff, (Hx y Hwx Hwy).
      specialize (IH Hwl l2 Hwl2). cbn [json_eqb] in IH. rewrite IH. split.
      * intros [H1 H2]. inversion H2; subst. constructor. constructor; assumption.
      * intros Hq. inversion Hq as [| | | |? ? HF|]; subst. inversion HF; subst. split; [assumption|now constructor].
  - destruct b0 as [| | | | |m2]; cbn [json_eqb]; try (split; intros Hx; [discriminate|inversion Hx]).
    apply json_wf_obj in Hwa as [Hnd1 Hw1]. apply json_wf_obj in Hwb as [Hnd2 Hw2].
    change ((fix go (m0 : list (str * json)) : bool :=
               match m0 with
               | [] => true
               | (k, v) :: r => match lookup k m2 with Some v' => json_eqb v v' | None => false end && go r
               end) m) with (obj_go json_eqb m2 m).
    rewrite andb_true_iff, obj_go_forall, Nat.eqb_eq.
    rewrite Forall_forall in H, Hw1, Hw2.
    split.
    + intros [Hlen Hall]. constructor.
      * (* same key sets *)
        assert (HP : Permutation (keys m) (keys m2)).
        { apply NoDup_Permutation_bis; [exact Hnd1| |].
          - unfold keys. rewrite !map_length. rewrite Hlen. apply Nat.le_refl.
          - intros k Hk. unfold keys in Hk. apply in_map_iff in Hk as ([k' v] & <- & Hin).
            destruct (Hall _ _ Hin) as (v' & Hl & _). apply lookup_In in Hl.
            unfold keys. apply in_map_iff. exists (k', v'). split; [reflexivity|exact Hl]. }
        intros k. rewrite !lookup_None. split; intros Hn Hk; apply Hn.
        -- eapply Permutation_in; [apply Permutation_sym; exact HP|exact Hk].
        -- eapply Permutation_in; [exact HP|exact Hk].
      * intros k v1 v2 H1 H2. apply lookup_In in H1. destruct (Hall _ _ H1) as (v' & Hl & He).
        rewrite H2 in Hl. injection Hl as <-.
        apply (H (k, v1) H1 v2); [apply (Hw1 (k, v1) H1)|apply lookup_In in H2; apply (Hw2 (k, v2) H2)|exact He].
    + intros Hq. inversion Hq as [| | | | |? ? Hk Hv]; subst.
      pose proof (same_keys_perm m m2 Hnd1 Hnd2 Hk) as HP.
      split.
      * apply Permutation_length in HP. unfold keys in HP. now rewrite !map_length in HP.
      * intros k v Hin. pose proof (In_lookup k v m Hnd1 Hin) as Hl1.
        destruct (lookup k m2) as [v'|] eqn:Hl2.
        -- exists v'. split; [reflexivity|].
           apply (H (k, v) Hin v'); [apply (Hw1 (k, v) Hin)|apply lookup_In in Hl2; apply (Hw2 (k, v') Hl2)|].
           eapply Hv; eauto.
        -- apply Hk in Hl2. congruence.
Qed.

(** [jeq] is an equivalence relation *)
Theorem jeq_refl : forall a, jeq a a.
Proof.
  induction a using json_ind'.
  - constructor.
  - constructor.
  - constructor. apply Qeq_refl.
  - constructor.
  - constructor. induction H; constructor; auto.
  - constructor.
    + intros k. tauto.
    + intros k v1 v2 H1 H2. rewrite H1 in H2. injection H2 as <-.
      apply lookup_In in H1. rewrite Forall_forall in H. exact (H (k, v1) H1).
Qed.

Theorem jeq_sym : forall a b, jeq a b -> jeq b a.
Proof.
  induction a using json_ind'; intros b0 Hq; inversion Hq; subst; try constructor.
  - now apply Qeq_sym.
  - match goal with HF : Forall2 jeq _ _ |- _ => revert HF end.
    generalize dependent l2. induction H as [|x l1 Hx Hl IH]; intros l2 _ HF; inversion HF; subst; constructor; auto.
    apply IH; auto. constructor. assumption.
  - intros k. match goal with Hk : forall k, _ <-> _ |- _ => specialize (Hk k); tauto end.
  - intros k v2 v1 Hl2 Hl1. rewrite Forall_forall in H.
    pose proof (lookup_In _ _ _ Hl1) as Hin. apply (H (k, v1) Hin). eauto.
Qed.

Theorem jeq_trans : forall a b c, jeq a b -> jeq b c -> jeq a c.
Proof.
  induction a using json_ind'; intros b0 c0 Ha Hb; inversion Ha; subst; inversion Hb; subst; try constructor.
  - eapply Qeq_trans; eauto.
  - match goal with HF1 : Forall2 jeq l l2, HF2 : Forall2 jeq l2 ?l3 |- _ => revert HF1 HF2; generalize l3 as l3' end.
    clear Ha Hb. revert l2. induction H as [|x l1 Hx Hl IH]; intros l2 l3 HF1 HF2; inversion HF1; subst; inversion HF2; subst; constructor.
    + eapply Hx; eauto.
    + eapply IH; eauto.
  - intros k. repeat match goal with Hk : forall k, _ <-> _ |- _ => specialize (Hk k) end. tauto.
  - intros k v1 v3 Hl1 Hl3. rewrite Forall_forall in H.
    destruct (lookup k m2) as [v2|] eqn:Hl2.
    + pose proof (lookup_In _ _ _ Hl1) as Hin. eapply (H (k, v1) Hin); eauto.
    + match goal with Hk : forall k, lookup k m = None <-> lookup k m2 = None |- _ => apply Hk in Hl2 end. congruence.
Qed.
