(** Extraction of the executable model: ExtrOcamlBasic only; numbers stay the
    extracted inductives (positive, N, Z, Q). *)
From Coq Require Import Extraction ExtrOcamlBasic.
From Coq Require Import List NArith ZArith QArith.
From JS Require Import Str Lit Json Res GoValue Equal Hash Schema Pointer CodecBase Codec Basic Env Ann Validate Spec Uri Resolve Defaults GoType Encode Infer C04Main Domain Verdict Decode NoPanic Terminates.
Extraction Language OCaml.
Extraction "model.ml"
  str_eqb str_cmp sort_strs lit json_eqb den canon strip gv_wf equalValue hash_stream jsonType jsonNumber
  unmarshal marshal doc_value decode_any decode_any_iface enc_gv ordered_keys
  dereferenceJSONPointer escape_seg subschema_at children all_sub
  parse_uri resolve_reference uri_string decode_fragment utf8_encode utf8_decode drop_frag is_abs empty_uri
  JS.res.Resolve.Resolve JS.val.Validate.Validate validate empty_schema is_zero_schema
  spec_valid spec_eval all_setters isValidSchemaVersion ApplyDefaults validateDefaults
  rank_auto
  ForType encode json_fields visible_fields dom conforms str_schema decodes nostd in_i64 json_wf
  Z.add Z.mul Z.opp Z.of_nat N.of_nat Z.to_nat N.to_nat Z.of_N Pos.of_nat Qred.
