(** C19 - Marshal output is deterministic and honours PropertyOrder.
    Only statements; proofs are in sch/MarshalFacts.v. *)
From Coq Require Import List Permutation.
From JS Require Import Str StrFacts Lit Json Res GoValue Schema CodecBase Codec Basic MarshalFacts.
Import ListNotations.

(** Within "properties": the PropertyOrder names that exist, in that order, then the
    remaining names ascending; PropertyOrder entries naming no property are ignored. *)
Theorem C19_order : forall s d props,
  marshal s = Ok d -> s_properties s = Some props ->
  exists ms t,
    d = DObj ms /\ lookup props_name ms = Some (DObj t) /\
    keys t = filter (fun n => mem_str n (keys props)) (match s_propertyOrder s with Some o => o | None => [] end)
             ++ sort_strs (filter (fun n => negb (mem_str n (filter (fun n => mem_str n (keys props))
                                                        (match s_propertyOrder s with Some o => o | None => [] end))))
                                  (keys props)).
Proof. exact marshal_properties_order. Qed.
Print Assumptions C19_order.

(** ... and each value is the marshalled subschema of that name (nested orders by induction) *)
Theorem C19_order_values : forall ma props order t,
  enc_props ma props order = Ok (DObj t) ->
  forall k d, In (k, d) t -> exists c, lookup k props = Some c /\ ma c = Ok d.
Proof. exact enc_props_values. Qed.
Print Assumptions C19_order_values.

(** Duplicate PropertyOrder entries are rejected with an error. *)
Theorem C19_dup : forall s order,
  s_propertyOrder s = Some order -> ~ NoDup order -> marshal s = Err.
Proof. exact marshal_duplicate_order. Qed.
Print Assumptions C19_dup.

(** The output does not depend on Go's map iteration order: a "properties" map, any
    other schema-valued map and any map inside Extra/enum/const values are written as a
    function of their key/value set (the model's list order is the iteration order). *)
Theorem C19_deterministic_properties : forall ma props props' order,
  NoDup (keys props) -> Permutation props props' -> enc_props ma props order = enc_props ma props' order.
Proof. exact enc_props_perm. Qed.
Print Assumptions C19_deterministic_properties.

Theorem C19_deterministic_maps : forall ma m m',
  NoDup (keys m) -> Permutation m m' -> enc_schm ma m = enc_schm ma m'.
Proof. exact enc_schm_perm. Qed.
Print Assumptions C19_deterministic_maps.

Theorem C19_deterministic_values : forall m m',
  NoDup (keys m) -> Permutation m m' -> enc_gv (GMap m) = enc_gv (GMap m').
Proof. exact enc_gv_map_perm. Qed.
Print Assumptions C19_deterministic_values.

Theorem C19_deterministic_root : forall s props props',
  s_properties s = Some props -> NoDup (keys props) -> Permutation props props' ->
  marshal_schema (marshal_fuel (size s)) (set_properties (Some props') s) (basicChecks s)
  = marshal_schema (marshal_fuel (size s)) s (basicChecks s).
Proof. exact marshal_properties_perm. Qed.
Print Assumptions C19_deterministic_root.

(** non-vacuity: a schema with three properties and an order naming two of them and a stranger *)
Example C19_example :
  let p := [(lit "b"%lit, empty_schema); (lit "a"%lit, empty_schema); (lit "c"%lit, empty_schema)] in
  let s := set_propertyOrder (Some [lit "c"%lit; lit "zz"%lit; lit "b"%lit]) (set_properties (Some p) empty_schema) in
  exists ms t, marshal s = Ok (DObj ms) /\ lookup props_name ms = Some (DObj t) /\
               keys t = [lit "c"%lit; lit "b"%lit; lit "a"%lit].
Proof. vm_compute. eexists _, _. repeat split. Qed.
