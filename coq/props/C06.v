(** C06 - $dynamicRef follows the dynamic scope exactly as specified. *)
From Coq Require Import List NArith ZArith QArith Bool.
From JS Require Import Str Lit Json Res GoValue Hash Schema Env Ann Validate Spec RefineBase Refine Corollaries.
Import ListNotations.

(** the dynamic scope [C] is part of the refinement theorem: for every stack of entered
    schemas the evaluator chooses the target the specification chooses *)
Theorem C06_refines : forall re_match hash e n C inst l s sr,
  gv_wf inst = true ->
  spec_eval re_match n e C (den inst) l s = Some sr ->
  agrees (den inst) (validate re_match hash n e C inst l s) sr.
Proof. exact validate_refines. Qed.
Print Assumptions C06_refines.

(** the code's walk over the evaluation stack is the specification's scope lookup *)
Theorem C06_lookup : forall e C a o, scope_lookup e C a = Some o -> dyn_lookup e C a = Ok o.
Proof. exact dyn_lookup_spec. Qed.
Print Assumptions C06_lookup.

(** ... which picks the OUTERMOST resource of the scope that declares the dynamic anchor *)
Theorem C06_outermost : forall e C1 l C2 a t,
  Forall (fun l' => declares_none e l' a) C1 -> declares e l a t ->
  scope_lookup e (C1 ++ l :: C2) a = Some (Some t).
Proof. exact scope_lookup_outermost. Qed.
Print Assumptions C06_outermost.

(** ... and falls back to the lexical target when no resource of the scope declares it *)
Theorem C06_fallback : forall e C a,
  Forall (fun l' => declares_none e l' a) C -> scope_lookup e C a = Some None.
Proof. exact scope_lookup_fallback. Qed.
Print Assumptions C06_fallback.

(** a Resolved is reused across calls without leaking: Validate is a function of the
    environment and the instance alone (every call starts from the empty stack) *)
Theorem C06_history : forall re_match hash n e (calls : list gv),
  map (fun i => Validate re_match hash n e i) calls = map (Validate re_match hash n e) calls.
Proof. reflexivity. Qed.
