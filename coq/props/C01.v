(** C01 - Validate decides exactly the draft 2020-12 validity relation.
    Statements only; proofs in val/Refine.v, val/Corollaries.v, val/SpecMono.v. *)
From Coq Require Import List NArith ZArith QArith Bool.
From JS Require Import Str Lit Json Res GoValue Hash Schema Codec Basic Env Ann Validate Spec SpecMono RefineBase Refine Corollaries Uri Resolve.
Import ListNotations.

(** The evaluator agrees with the specification (verdict and evaluated sets) on every
    schema object, dynamic scope, instance in any representation, whenever the
    specification is defined at that fuel. Covers every keyword combination and nesting. *)
Theorem C01_refines : forall re_match hash e n C inst l s sr,
  gv_wf inst = true ->
  spec_eval re_match n e C (den inst) l s = Some sr ->
  agrees (den inst) (validate re_match hash n e C inst l s) sr.
Proof. exact validate_refines. Qed.
Print Assumptions C01_refines.

(** Resolved.Validate returns nil exactly when the specification says valid. *)
Theorem C01_verdict : forall re_match hash n e inst b,
  gv_wf inst = true ->
  isValidSchemaVersion (e_version e) = true ->
  spec_valid re_match n e (den inst) = Some b ->
  Validate re_match hash n e inst = if b then Ok tt else Err.
Proof. exact Validate_spec. Qed.
Print Assumptions C01_verdict.

(** The specification is a well-defined partial function of (schema, instance): more
    fuel never changes an answer, so "valid" does not depend on the fuel used. *)
Theorem C01_spec_monotone : forall re_match n e C j l s r,
  spec_eval re_match n e C j l s = Some r -> spec_eval re_match (S n) e C j l s = Some r.
Proof. exact spec_eval_mono. Qed.
Print Assumptions C01_spec_monotone.

Theorem C01_spec_deterministic : forall re_match n m e C j l s r r',
  spec_eval re_match n e C j l s = Some r -> spec_eval re_match m e C j l s = Some r' -> r = r'.
Proof. exact spec_eval_deterministic. Qed.
Print Assumptions C01_spec_deterministic.

(** non-vacuity: a schema mixing properties, patternProperties, additionalProperties under
    allOf next to unevaluatedProperties, through Unmarshal and Resolve; one accepted and one
    rejected instance, with the specification defined on both. *)
Definition ex_doc : jdoc :=
  DObj [ (lit "allOf"%lit, DArr [ DObj [ (lit "properties"%lit, DObj [ (lit "a"%lit, DObj [ (lit "type"%lit, DStr (lit "integer"%lit)) ]) ]);
                                           (lit "patternProperties"%lit, DObj [ (lit "^b"%lit, DObj [ (lit "minimum"%lit, DNum NFInt (2#1)) ]) ]) ] ]);
         (lit "unevaluatedProperties"%lit, DBool false) ].
Definition ex_rx (p s : str) : bool := match s with 98%N :: _ => true | _ => false end.
Definition ex_env : env :=
  match unmarshal ex_doc with
  | Ok s => match JS.res.Resolve.Resolve (fun _ => true) 5 s [] None with Ok (e, _) => e | _ => mkEnv false [] [] [] end
  | _ => mkEnv false [] [] []
  end.
Definition ex_good : json := JObj [ (lit "a"%lit, JNum (1#1)); (lit "bb"%lit, JNum (3#1)) ].
Definition ex_bad : json := JObj [ (lit "a"%lit, JNum (1#1)); (lit "c"%lit, JNull) ].
Example C01_example :
  spec_valid ex_rx 10 ex_env ex_good = Some true /\
  spec_valid ex_rx 10 ex_env ex_bad = Some false /\
  Validate ex_rx (fun _ => 0%Z) 10 ex_env (canon ex_good) = Ok tt /\
  Validate ex_rx (fun _ => 0%Z) 10 ex_env (canon ex_bad) = Err.
Proof. vm_compute. repeat split. Qed.
