(** C12 - enum, const and uniqueItems decide by JSON equality, independently of the hash seed. *)
From Coq Require Import List NArith ZArith QArith Bool.
From JS Require Import Str Json GoValue Equal EqualFacts Hash HashFacts Res Schema Env Ann Validate Spec Unique RefineAssert RefineArr Corollaries.
Import ListNotations.

Theorem C12_enum : forall s g, check_enum s (strip g) = guard (a_enum s (den g)).
Proof. exact check_enum_spec. Qed.
Print Assumptions C12_enum.
Theorem C12_enum_is_Equal : forall s inst l,
  s_enum s = Some l -> check_enum s inst = guard (existsb (fun e => equalValue e inst) l).
Proof. intros s inst l H. unfold check_enum. now rewrite H. Qed.
Print Assumptions C12_enum_is_Equal.
Theorem C12_const : forall s g, check_const s (strip g) = guard (a_const s (den g)).
Proof. exact check_const_spec. Qed.
Print Assumptions C12_const.

(** equal values feed the same data to the hash *)
Theorem C12_hash_law : forall x y, gv_wf x = true -> gv_wf y = true ->
  equalValue x y = true -> hash_stream x = hash_stream y.
Proof. exact hash_law. Qed.
Print Assumptions C12_hash_law.

(** uniqueItems = "no two elements are Equal", for EVERY bucket function [hash]
    (i.e. whatever seed maphash.MakeSeed draws) and arrays of any length *)
Theorem C12_unique : forall (hash : list tok -> Z) s items,
  Forall (fun x => gv_wf x = true) items ->
  check_unique hash s items = guard (if s_uniqueItems s then distinct (map den items) else true).
Proof. exact check_unique_spec. Qed.
Print Assumptions C12_unique.

Theorem C12_seed_independent : forall re_match (hash hash' : list tok -> Z) n e g b,
  gv_wf g = true -> isValidSchemaVersion (e_version e) = true ->
  spec_valid re_match n e (den g) = Some b ->
  Validate re_match hash n e g = Validate re_match hash' n e g.
Proof. exact Validate_seed. Qed.
Print Assumptions C12_seed_independent.

Example C12_example :
  (* [1, 1.0] as (int, float) are duplicates; [1, "1"] are not; whatever the bucket function *)
  unique_loop (fun _ => 0%Z) [GInt 1; GFloat (1#1)] 0 [GInt 1; GFloat (1#1)] [] = false /\
  unique_loop (fun t => Z.of_nat (length t)) [GInt 1; GStr [49%N]] 0 [GInt 1; GStr [49%N]] [] = true.
Proof. vm_compute. split; reflexivity. Qed.
