(** C14 - Resolve, Validate and Marshal are pure and deterministic.  (partial)
    The model is a set of Gallina functions over immutable values: a result is a function
    of the inputs and nothing is modified, by construction; that the package behaves like
    these functions on repeated calls, fresh processes and rebuilt maps, and leaves its
    inputs unchanged, is what the correspondence family [pure] decides.  The theorems below
    are the parts of the statement that are about the sources of non-determinism the model
    represents: the hash seed of uniqueItems, the order in which an instance map lists its
    members, the order in which the maps of the schema are ranged over (properties,
    patternProperties, dependentSchemas, dependentRequired ..., at every depth and in every
    schema a reference leads to), and the order in which a map is listed when it is
    marshalled. *)
From Coq Require Import List NArith ZArith QArith Bool Permutation.
From JS Require Import Str StrFacts Lit Json JsonFacts Res GoValue Hash Schema CodecBase Codec Basic MarshalFacts Env Ann Validate Spec SpecMono Refine Corollaries SpecPerm OrderFree SchemaRel SchemaPerm Uri Resolve ResolveRel.
Import ListNotations.

(** the verdict is the same under every hash function (every seed of every process) *)
Theorem C14_seed : forall re_match (hash hash' : list tok -> Z) n e g b,
  gv_wf g = true -> isValidSchemaVersion (e_version e) = true ->
  spec_valid re_match n e (den g) = Some b ->
  Validate re_match hash n e g = Validate re_match hash' n e g.
Proof. exact Validate_seed. Qed.
Print Assumptions C14_seed.

(** the verdict is determined by the resolved schema and the JSON value alone: whatever
    sufficient recursion budget is used, the specification gives one answer, and the model's
    Validate returns it *)
Theorem C14_verdict_unique : forall re_match n m e C j l s r r',
  spec_eval re_match n e C j l s = Some r -> spec_eval re_match m e C j l s = Some r' -> r = r'.
Proof. exact spec_eval_deterministic. Qed.
Print Assumptions C14_verdict_unique.

Theorem C14_verdict_function : forall re_match hash n e inst b,
  gv_wf inst = true -> isValidSchemaVersion (e_version e) = true ->
  spec_valid re_match n e (den inst) = Some b ->
  Validate re_match hash n e inst = if b then Ok tt else Err.
Proof. exact Validate_spec. Qed.
Print Assumptions C14_verdict_function.

(** the verdict does not depend on the order in which any map of the instance lists its
    members (nor on the representation of its numbers): JSON-equal instances, same verdict -
    the specification gives the same result, the same evaluated items and, as sets, the
    same evaluated property names *)
Theorem C14_instance_order : forall re_match hash n e g g' b,
  gv_wf g = true -> gv_wf g' = true -> jeq (den g) (den g') ->
  isValidSchemaVersion (e_version e) = true ->
  spec_valid re_match n e (den g) = Some b ->
  Validate re_match hash n e g = Validate re_match hash n e g'.
Proof. exact Validate_json_value. Qed.
Print Assumptions C14_instance_order.

Theorem C14_spec_order : forall re_match e n C j j' l s,
  jeq j j' -> json_wf j = true -> json_wf j' = true ->
  ores_eq (spec_eval re_match n e C j l s) (spec_eval re_match n e C j' l s).
Proof. exact spec_eval_comp. Qed.
Print Assumptions C14_spec_order.

Example C14_example_order :
  jeq (JObj [(lit "a"%lit, JNum 1); (lit "b"%lit, JArr [JObj [(lit "x"%lit, JNull); (lit "y"%lit, JBool true)]])])
      (JObj [(lit "b"%lit, JArr [JObj [(lit "y"%lit, JBool true); (lit "x"%lit, JNull)]]); (lit "a"%lit, JNum (2#2))]).
Proof.
  apply json_eqb_jeq; vm_compute; reflexivity.
Qed.

(** the marshalled document does not depend on the order in which Go lists a map: the
    properties map, every other schema-valued map, and every map inside a value *)
Theorem C14_marshal_properties : forall ma props props' order,
  NoDup (keys props) -> Permutation props props' -> enc_props ma props order = enc_props ma props' order.
Proof. exact enc_props_perm. Qed.
Print Assumptions C14_marshal_properties.

Theorem C14_marshal_maps : forall ma m m',
  NoDup (keys m) -> Permutation m m' -> enc_schm ma m = enc_schm ma m'.
Proof. exact enc_schm_perm. Qed.
Print Assumptions C14_marshal_maps.

Theorem C14_marshal_values : forall m m',
  NoDup (keys m) -> Permutation m m' -> enc_gv (GMap m) = enc_gv (GMap m').
Proof. exact enc_gv_map_perm. Qed.
Print Assumptions C14_marshal_values.

(** the verdict does not depend on the order in which the maps of the SCHEMA hold their
    entries: two resolved environments whose schema objects are related by [srel] (equal
    except for the order of the entries of their maps - and for the annotation-only scalar
    keywords and unknown keywords that nothing reads, see props/C18.v - recursively; [erel] relates the
    environments node by node) give the same verdict for every instance - the loops over
    schema.Properties, PatternProperties, DependentSchemas, DependentRequired,
    DependencySchemas/Strings may run in any order *)
Theorem C14_schema_map_order_spec : forall re_match n e e' j,
  erel e e' -> spec_valid re_match n e j = spec_valid re_match n e' j.
Proof. exact spec_valid_srel. Qed.
Print Assumptions C14_schema_map_order_spec.

Theorem C14_schema_map_order : forall re_match hash n e e' inst b,
  erel e e' -> gv_wf inst = true -> isValidSchemaVersion (e_version e) = true ->
  spec_valid re_match n e (den inst) = Some b ->
  Validate re_match hash n e inst = Validate re_match hash n e' inst.
Proof. exact Validate_map_order. Qed.
Print Assumptions C14_schema_map_order.

(** Schema.Resolve itself does not depend on the order of the entries of any map of the schema
    tree or of a document the Loader returns ([lrel]: the same URIs, [srel]-related documents):
    the same outcome (value, error; never a panic on one side only), the same Loader calls in the
    same order, and Resolved values related by [erel] - so that, with the theorem above, Resolve
    followed by Validate gives one verdict whatever order Go's maps are ranged in *)
Theorem C14_resolve_map_order : forall re_ok fuel root root' baseURI loader loader',
  srel root root' -> lrel loader loader' ->
  rrel resrel (Resolve re_ok fuel root baseURI loader) (Resolve re_ok fuel root' baseURI loader').
Proof. exact Resolve_srel. Qed.
Print Assumptions C14_resolve_map_order.

Theorem C14_resolve_validate_map_order : forall re_ok re_match hash fuel root root' baseURI loader loader' e calls,
  srel root root' -> lrel loader loader' ->
  Resolve re_ok fuel root baseURI loader = Ok (e, calls) ->
  exists e', Resolve re_ok fuel root' baseURI loader' = Ok (e', calls) /\
    forall n inst b, gv_wf inst = true -> isValidSchemaVersion (e_version e) = true ->
      spec_valid re_match n e (den inst) = Some b ->
      Validate re_match hash n e inst = Validate re_match hash n e' inst.
Proof. exact Resolve_Validate_map_order. Qed.
Print Assumptions C14_resolve_validate_map_order.

(** non-vacuity: {"properties": {"a": true, "b": false}, "dependentRequired": {"x": ["a"], "y": []}}
    and the same schema with both maps listed the other way round are related *)
Lemma srel_empty : srel empty_schema empty_schema.
Proof. constructor; try reflexivity; constructor. Qed.
Lemma srel_false : srel false_schema false_schema.
Proof. constructor; try reflexivity; try constructor. exact srel_empty. Qed.
Definition sA : schema :=
  set_dependentRequired (Some [(lit "x"%lit, [lit "a"%lit]); (lit "y"%lit, [])])
  (set_properties (Some [(lit "a"%lit, empty_schema); (lit "b"%lit, false_schema)]) empty_schema).
Definition sB : schema :=
  set_dependentRequired (Some [(lit "y"%lit, []); (lit "x"%lit, [lit "a"%lit])])
  (set_properties (Some [(lit "b"%lit, false_schema); (lit "a"%lit, empty_schema)]) empty_schema).
Example C14_srel_example : srel sA sB.
Proof.
  constructor; try reflexivity; try (constructor; fail).
  - constructor. split; [repeat constructor; cbn; intuition discriminate|].
    exists [(lit "y"%lit, []); (lit "x"%lit, [lit "a"%lit])]. split; [apply perm_swap|repeat constructor].
  - constructor. split; [repeat constructor; cbn; intuition discriminate|].
    exists [(lit "b"%lit, false_schema); (lit "a"%lit, empty_schema)]. split; [apply perm_swap|].
    constructor; [split; [reflexivity|exact srel_false]|]. constructor; [split; [reflexivity|exact srel_empty]|constructor].
Qed.

(** ... and both resolve (no loader, no base URI, budget 2) *)
Example C14_resolve_example :
  exists e e', Resolve (fun _ => true) 2 sA [] None = Ok (e, []) /\ Resolve (fun _ => true) 2 sB [] None = Ok (e', []).
Proof. eexists. eexists. split; vm_compute; reflexivity. Qed.
