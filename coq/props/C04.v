(** C04 - The inferred schema accepts the JSON encoding of every value of the type.
    Proofs: inf/C04Main.v (model of infer.go: inf/Infer.v; of encoding/json: inf/GoType.v,
    inf/Encode.v; acceptance against the specification function: inf/Accept.v). *)
From Coq Require Import List NArith ZArith QArith Bool Lia.
From JS Require Import Str Lit Json Res GoValue Hash Schema Basic Env Ann Validate Spec SpecMono Refine Corollaries
     Uri Resolve ResolveFacts GoType Encode Infer InferFacts Accept WellTyped C04Main FieldsFacts Domain EndToEnd.
Import ListNotations.
Local Open Scope nat_scope.

Lemma ForType_def o t : ForType o t = infer o 64 nil t.
Proof. reflexivity. Qed.

(** For every type T and options o of the domain ([good]: TypeSchemas holds only the
    standard marshaler types, as strings; IgnoreInvalidTypes off; default debug setting),
    every value v of T ([wt]: integers within their kind, arrays of their length, maps and
    embedded pointers non-nil, marshaler values encoding as strings) and its encoding j
    ([encode]: the model of encoding/json, with or without omitzero): the schema ForType
    returns accepts j - at every location, under every dynamic scope, in every 2020-12
    environment, i.e. by the specification function the evaluator is proved to refine. *)
Theorem C04_main : forall re_match e oz o,
  e_draft7 e = false -> o_ignore o = false -> o_tsnull o = false ->
  forall t s, ForType o t = Ok (Some s) ->
  forall g, good g o t -> forall m v k j, wt m t v = true -> encode oz k t v = Some j ->
  accepts re_match e s j.
Proof. intros re_match e oz o Hd Hig Hts t s Hf. rewrite ForType_def in Hf. apply (infer_accepts re_match e oz o Hd Hig Hts 64 [] t s Hf). Qed.
Print Assumptions C04_main.

(** ... hence Resolved.Validate returns nil for it (for every representation of j) *)
Theorem C04_validate : forall re_match hash e oz o,
  e_draft7 e = false -> o_ignore o = false -> o_tsnull o = false ->
  forall t s, ForType o t = Ok (Some s) -> node_at e (0, []) = Some s -> isValidSchemaVersion (e_version e) = true ->
  forall g, good g o t -> forall m v k j, wt m t v = true -> encode oz k t v = Some j ->
  forall inst, gv_wf inst = true -> den inst = j ->
  exists n, forall n', n <= n' -> Validate re_match hash n' e inst = Ok tt.
Proof.
  intros re_match hash e oz o Hd Hig Hts t s Hf Hroot Hv g Hg m v k j Hw He inst Hwf Hden.
  destruct (accepts_fuel re_match e s j [] (0, []) (C04_main re_match e oz o Hd Hig Hts t s Hf g Hg m v k j Hw He)) as (n & Hn).
  exists n. intros n' Hle. destruct (Hn n' Hle) as (sg & Hs).
  apply (Validate_spec re_match hash n' e inst true Hwf Hv).
  unfold spec_valid. rewrite Hroot, Hden, Hs. reflexivity.
Qed.
Print Assumptions C04_validate.

(** The same with the domain as a computable condition on the type: [dom o t] says that defined
    types have no TypeSchemas entry, the standard marshaler types have theirs (a string
    schema), no embedded struct is replaced through TypeSchemas and no embedded field of an
    unexported type carries a json name.  The side conditions of C04_main ([good]) follow:
    every selected field is the declared field at its index sequence, reached through
    embedded fields (FieldsFacts.json_fields_ok), the selection does not depend on TypeSchemas
    (json_fields_ext) and its omitempty/omitzero flags are those inference reads. *)
Theorem C04_domain : forall re_match e oz o,
  e_draft7 e = false -> o_ignore o = false -> o_tsnull o = false ->
  (forall n x, lookup n (o_schemas o) = Some x -> x = Some str_schema) ->
  forall t s, dom o t = true -> ForType o t = Ok (Some s) ->
  forall m v k j, wt m t v = true -> encode oz k t v = Some j ->
  accepts re_match e s j.
Proof.
  intros re_match e oz o Hd Hig Hts Hstd t s Hdom Hf m v k j Hw He.
  apply (C04_main re_match e oz o Hd Hig Hts t s Hf (S (gsize t)) (dom_good o Hstd _ t (Nat.lt_succ_diag_r _) Hdom) m v k j Hw He).
Qed.
Print Assumptions C04_domain.

(** end to end in the model: For, then Resolve, then Validate on the encoding *)
Theorem C04_end_to_end : forall re_ok re_match hash oz o,
  o_ignore o = false -> o_tsnull o = false ->
  (forall n x, lookup n (o_schemas o) = Some x -> x = Some str_schema) ->
  forall t s fuel e calls,
  dom o t = true -> ForType o t = Ok (Some s) ->
  Resolve re_ok fuel s [] None = Ok (e, calls) ->
  forall m v k j inst, wt m t v = true -> encode oz k t v = Some j -> gv_wf inst = true -> den inst = j ->
  exists n, forall n', n <= n' -> Validate re_match hash n' e inst = Ok tt.
Proof. exact For_Resolve_Validate. Qed.
Print Assumptions C04_end_to_end.

(** every selected field is the declared field at its index sequence (for every struct type) *)
Theorem C04_fields_sound : forall ovr t,
  (match strip_named t with TyPtr _ => False | _ => True end) ->
  forall f, In f (json_fields ovr t) ->
  type_at (jf_index f) t = Some (jf_decl f) /\ path_embedded (jf_index f) t = true /\ jf_index f <> [].
Proof. exact json_fields_ok. Qed.
Print Assumptions C04_fields_sound.

(** the selection of struct fields keeps one field per JSON name (what lets the encoding's
    members be matched with the schema's properties) *)
Theorem C04_names_distinct : forall ovr t, NoDup (map jf_name (json_fields ovr t)).
Proof. exact json_fields_names_nodup. Qed.
Print Assumptions C04_names_distinct.

(** non-vacuity: a struct with a JSON-name conflict through embedding (the former defect
    O-6), a pointer, a slice, an array, a map, an omitempty field and a time.Time *)
Definition fld (name : str) (tag : option str) (emb : bool) : finfo :=
  mkF name true emb (match tag with Some _ => true | None => false end) (match tag with Some t => t | None => [] end) None.
Definition tE : gtype := TyNamed (lit "main.E"%lit) (TyStruct [
  (fld (lit "A"%lit) (Some (lit "a"%lit)) false, TyString);
  (fld (lit "B"%lit) (Some (lit "b,omitempty"%lit)) false, TyPtr (TyInt KInt8))]).
Definition tT : gtype := TyNamed (lit "main.T"%lit) (TyStruct [
  (fld (lit "X"%lit) (Some (lit "a"%lit)) false, TyInt KUint16);
  (fld (lit "E"%lit) None true, tE);
  (fld (lit "L"%lit) None false, TySlice (TyArray 2 (TyFloat false)));
  (fld (lit "M"%lit) (Some (lit "m"%lit)) false, TyMap true TyIface);
  (fld (lit "W"%lit) None false, TyStd (lit "time.Time"%lit))]).
Definition o_std : iopts := mkO false false [(lit "time.Time"%lit, Some str_schema)].
Definition vT : tval := VStruct [VInt 65535; VStruct [VStr (lit "x"%lit); VNil]; VList [VList [VFloat (1#2); VFloat 0]];
                                  VMap [(lit "k"%lit, VAny (JBool true))]; VStdV (JStr (lit "2020-01-01T00:00:00Z"%lit))].

Example C04_example_good : good 4 o_std tT.
Proof.
  change (named_ok o_std tT /\ (struct_ok o_std tT /\ forall f, In f (json_fields (fun _ => false) tT) -> good 3 o_std (jf_decl f))).
  split; [right; reflexivity|]. split.
  - split; [vm_compute; reflexivity|].
    intros f Hf. vm_compute in Hf.
    repeat (destruct Hf as [<-|Hf]; [vm_compute; repeat split; discriminate|]). contradiction.
  - intros f Hf. vm_compute in Hf.
    repeat (destruct Hf as [<-|Hf]; [cbn; repeat split; try (left; reflexivity); try (right; reflexivity); auto|]); try contradiction.
Qed.

Example C04_example_dom : dom o_std tT = true.
Proof. vm_compute. reflexivity. Qed.

Example C04_example : exists s j,
  ForType o_std tT = Ok (Some s) /\ wt 6 tT vT = true /\ encode false 9 tT vT = Some j /\
  (* the outer "a" (a number) is what is encoded and what the schema describes *)
  lookup (lit "a"%lit) (match j with JObj m => m | _ => [] end) = Some (JNum (65535#1)).
Proof. vm_compute. eexists _, _. repeat split. Qed.
