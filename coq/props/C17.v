(** C17 - Every subschema is addressable by its JSON Pointer. *)
From Coq Require Import List NArith ZArith QArith Bool.
From JS Require Import Str Lit Json Res GoValue Schema Basic Pointer PointerFacts ChildFacts Addressable Resolve FieldChildren.
Import ListNotations.

(** '#' + the RFC 6901 pointer of a subschema's location resolves to precisely that
    subschema: for every schema-holding keyword of both drafts (the children table is
    regenerated from /repo's Schema struct), every array index and every key string. *)
Theorem C17_addressable : forall s q c,
  (forall p x, In (p, x) (all_sub s) -> good_node x) ->
  In (q, c) (all_sub s) ->
  dereferenceJSONPointer s (render (map token q)) = Ok (q, c).
Proof. exact addressable. Qed.
Print Assumptions C17_addressable.

(** ~0 / ~1 escaping round-trips for every key string, and rendered pointers parse back *)
Theorem C17_escape_roundtrip : forall s, unescape_seg (escape_seg s) = s.
Proof. exact unescape_escape. Qed.
Print Assumptions C17_escape_roundtrip.
Theorem C17_parse_render : forall segs, parseJSONPointer (render segs) = Ok segs.
Proof. exact parse_render. Qed.
Print Assumptions C17_parse_render.
Theorem C17_index_roundtrip : forall n, parse_index (digits n) = Some n.
Proof. exact parse_index_digits. Qed.
Print Assumptions C17_index_roundtrip.

(** a pointer never selects another schema: what it resolves to is the subschema at the
    location the resolver records for it *)
Theorem C17_only : forall s ptr p c,
  dereferenceJSONPointer s ptr = Ok (p, c) -> subschema_at s p = Some c.
Proof. exact dereference_sound. Qed.
Print Assumptions C17_only.

(** ... and that location is one of the subschemas of the tree: a pointer that resolves names a
    subschema location (one [all_sub] lists: reachable from the root through the keywords that
    hold subschemas, their indices and their keys), so a pointer that names none makes the
    dereference - and with it Resolve - fail.  Together with [C17_addressable] the resolvable
    pointers are exactly the subschema locations. *)
Theorem C17_only_subschemas : forall s ptr p c,
  dereferenceJSONPointer s ptr = Ok (p, c) -> In (p, c) (all_sub s).
Proof. intros s ptr p c H. apply location_listed. now apply (dereference_sound s ptr). Qed.
Print Assumptions C17_only_subschemas.

Example C17_example :
  (* signed, padded and dash indexes, and a bad escape, are refused *)
  parse_index (lit "+1"%lit) = None /\ parse_index (lit "01"%lit) = None /\ parse_index (lit "-"%lit) = None /\
  parse_index (lit "10"%lit) = Some 10%nat /\ parseJSONPointer (lit "/a~2b"%lit) = Err /\
  parseJSONPointer (lit "/a~01/~1"%lit) = Ok [lit "a~1"%lit; lit "/"%lit].
Proof. vm_compute. repeat split. Qed.
