(** C02 - Draft-07 schemas are validated with draft-07 semantics. *)
From Coq Require Import List NArith ZArith QArith Bool.
From JS Require Import Str StrFacts Lit Json Res GoValue Hash Schema Codec Basic Env Ann Validate Spec RefineBase Refine Corollaries Uri Resolve.
Import ListNotations.

(** One refinement theorem covers both drafts: the specification switches on [e_draft7]
    exactly the constructs the drafts differ in ($ref masks its siblings, array-form items
    with additionalItems, dependencies). *)
Theorem C02_refines : forall re_match hash e n C inst l s sr,
  e_draft7 e = true -> gv_wf inst = true ->
  spec_eval re_match n e C (den inst) l s = Some sr ->
  agrees (den inst) (validate re_match hash n e C inst l s) sr.
Proof. intros. now apply validate_refines. Qed.
Print Assumptions C02_refines.

(** Draft detection: draft-07 exactly for the two draft-07 $schema spellings. *)
Theorem C02_draft_detect : forall s,
  detectDraft7 s = true <-> (s_schema s = draft7_uri \/ s_schema s = draft7s_uri).
Proof.
  intros s. unfold detectDraft7. rewrite orb_true_iff, !str_eqb_eq. tauto.
Qed.
Print Assumptions C02_draft_detect.

(** Any other $schema value is refused by Validate with an error, for every instance. *)
Theorem C02_refuse : forall re_match hash n e inst,
  isValidSchemaVersion (e_version e) = false -> Validate re_match hash n e inst = Err.
Proof. exact Validate_refuses. Qed.
Print Assumptions C02_refuse.

(** In draft-07 an object with $ref is only its $ref: the siblings contribute nothing. *)
Theorem C02_ref_masks_siblings : forall re_match e ev C j l s r,
  e_draft7 e = true -> s_ref s <> [] ->
  spec_body re_match e ev C j l s = Some r ->
  exists t c y, (exists i, info_at e l = Some i /\ ri_ref i = Some t) /\ node_at e t = Some c /\
                ev j t c = Some y /\ r = (fst y, sig0).
Proof.
  intros re_match e ev C j l s r Hd Hr H. unfold spec_body in H. rewrite Hd in H.
  destruct (s_ref s) as [|c0 r0] eqn:Er; [contradiction|].
  destruct (info_at e l) as [i|]; [|discriminate]. destruct (ri_ref i) as [t|] eqn:Et; [|discriminate].
  destruct (node_at e t) as [c|] eqn:En; [|discriminate].
  cbn [eval_all] in H. destruct (ev j t c) as [y|] eqn:Ey; [|discriminate].
  cbn [andb] in H. injection H as <-.
  exists t, c, y. repeat split; eauto. cbn. now rewrite andb_true_r.
Qed.
Print Assumptions C02_ref_masks_siblings.

(** A document loaded without $schema is resolved under the root's draft: by definition of
    resolve_doc the draft of a document is [if s_schema = "" then rootDraft7 else own]. *)
Example C02_inherit_example :
  (* draft-07 root referring, from a nested subschema, to a document without $schema that
     uses a fragment-only $id as an anchor: resolves, and validates as an integer schema *)
  let root := DObj [ (lit "$schema"%lit, DStr draft7_uri); (lit "$id"%lit, DStr (lit "http://x/a"%lit));
                     (lit "properties"%lit, DObj [ (lit "p"%lit, DObj [ (lit "$ref"%lit, DStr (lit "r#foo"%lit)) ]) ]) ] in
  let rdoc := DObj [ (lit "definitions"%lit, DObj [ (lit "x"%lit, DObj [ (lit "$id"%lit, DStr (lit "#foo"%lit)); (lit "type"%lit, DStr (lit "integer"%lit)) ]) ]) ] in
  match unmarshal root, unmarshal rdoc with
  | Ok s, Ok r =>
      match JS.res.Resolve.Resolve (fun _ => true) 5 s [] (Some [ (lit "http://x/r"%lit, Some r) ]) with
      | Ok (e, calls) =>
          e_draft7 e = true /\ calls = [lit "http://x/r"%lit] /\
          Validate (fun _ _ => true) (fun _ => 0%Z) 10 e (canon (JObj [ (lit "p"%lit, JNum (1#1)) ])) = Ok tt /\
          Validate (fun _ _ => true) (fun _ => 0%Z) 10 e (canon (JObj [ (lit "p"%lit, JStr (lit "s"%lit)) ])) = Err
      | _ => False
      end
  | _, _ => False
  end.
Proof. vm_compute. repeat split. Qed.
