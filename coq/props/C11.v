(** C11 - Equal is JSON value equality. *)
From Coq Require Import List NArith ZArith QArith Bool.
From JS Require Import Str Json JsonFacts JeqClauses GoValue Equal EqualFacts EqualSpec.
Import ListNotations.

Theorem C11 : forall x y, gv_wf x = true -> gv_wf y = true ->
  (equalValue x y = true <-> jeq (den x) (den y)).
Proof. exact Equal_is_json_equality. Qed.
Print Assumptions C11.

Theorem C11_reflexive : forall x, gv_wf x = true -> equalValue x x = true.
Proof. exact Equal_refl. Qed.
Print Assumptions C11_reflexive.
Theorem C11_symmetric : forall x y, gv_wf x = true -> gv_wf y = true -> equalValue x y = true -> equalValue y x = true.
Proof. exact Equal_sym. Qed.
Print Assumptions C11_symmetric.
Theorem C11_transitive : forall x y z, gv_wf x = true -> gv_wf y = true -> gv_wf z = true ->
  equalValue x y = true -> equalValue y z = true -> equalValue x z = true.
Proof. exact Equal_trans. Qed.
Print Assumptions C11_transitive.

(** the declarative relation is an equivalence on all JSON values *)
Theorem C11_jeq_equivalence : (forall a, jeq a a) /\ (forall a b, jeq a b -> jeq b a) /\ (forall a b c, jeq a b -> jeq b c -> jeq a c).
Proof. exact (conj jeq_refl (conj jeq_sym jeq_trans)). Qed.
Print Assumptions C11_jeq_equivalence.

(** the clauses of the statement, one per kind of JSON value: null only equals null, booleans
    and strings by value, numbers by mathematical value, arrays element-wise in order, objects
    as unordered sets of key/value pairs; values of different kinds are never equal *)
Theorem C11_clauses :
  (forall v, jeq JNull v <-> v = JNull) /\
  (forall b c, jeq (JBool b) (JBool c) <-> b = c) /\
  (forall x y, jeq (JNum x) (JNum y) <-> Qeq x y) /\
  (forall s t, jeq (JStr s) (JStr t) <-> s = t) /\
  (forall l1 l2, jeq (JArr l1) (JArr l2) <-> Forall2 jeq l1 l2) /\
  (forall m1 m2, jeq (JObj m1) (JObj m2) <->
     (forall k, lookup k m1 = None <-> lookup k m2 = None) /\
     (forall k v1 v2, lookup k m1 = Some v1 -> lookup k m2 = Some v2 -> jeq v1 v2)) /\
  (forall a b, jeq a b -> jkind_of a = jkind_of b).
Proof. exact jeq_clauses. Qed.
Print Assumptions C11_clauses.

Example C11_example :
  (* an int64 beyond 2^53 vs its float neighbour; an object with permuted members in different map types *)
  equalValue (GInt 9007199254740993) (GFloat (9007199254740992#1)) = false /\
  equalValue (GMap [([97%N], GInt 1); ([98%N], GInd (GArr []))]) (GInd (GMap [([98%N], GArr []); ([97%N], GFloat (1#1))])) = true.
Proof. vm_compute. split; reflexivity. Qed.
