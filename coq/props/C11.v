(** C11 - Equal is JSON value equality. *)
From Coq Require Import List NArith ZArith QArith Bool.
From JS Require Import Str Json JsonFacts GoValue Equal EqualFacts EqualSpec.
Import ListNotations.

Theorem C11 : forall x y, gv_wf x = true -> gv_wf y = true ->
  (equalValue x y = true <-> jeq (den x) (den y)).
Proof. exact Equal_is_json_equality. Qed.
Print Assumptions C11.

Theorem C11_reflexive : forall x, gv_wf x = true -> equalValue x x = true.
Proof. exact Equal_refl. Qed.
Print Assumptions C11_reflexive.
Theorem C11_symmetric : forall x y, gv_wf x = true -> gv_wf y = true -> equalValue x y = true -> equalValue y x = true.
Proof. exact Equal_sym. Qed.
Print Assumptions C11_symmetric.
Theorem C11_transitive : forall x y z, gv_wf x = true -> gv_wf y = true -> gv_wf z = true ->
  equalValue x y = true -> equalValue y z = true -> equalValue x z = true.
Proof. exact Equal_trans. Qed.
Print Assumptions C11_transitive.

(** the declarative relation is an equivalence on all JSON values *)
Theorem C11_jeq_equivalence : (forall a, jeq a a) /\ (forall a b, jeq a b -> jeq b a) /\ (forall a b c, jeq a b -> jeq b c -> jeq a c).
Proof. exact (conj jeq_refl (conj jeq_sym jeq_trans)). Qed.
Print Assumptions C11_jeq_equivalence.

Example C11_example :
  (* an int64 beyond 2^53 vs its float neighbour; an object with permuted members in different map types *)
  equalValue (GInt 9007199254740993) (GFloat (9007199254740992#1)) = false /\
  equalValue (GMap [([97%N], GInt 1); ([98%N], GInd (GArr []))]) (GInd (GMap [([98%N], GArr []); ([97%N], GFloat (1#1))])) = true.
Proof. vm_compute. split; reflexivity. Qed.
