(** C05 - A schema survives a JSON round trip with its meaning intact.  (partial)
    Proved: the boolean forms round-trip; marshalled output is a function of the Schema
    value (C19 lemmas); unknown keywords are kept apart from the fields.  The general
    round-trip theorem over all 65 fields is NOT proved; it is decided by the correspondence
    of the codec model (generated from the field table, which is re-checked against /repo)
    and by the round-trip laws evaluated on the implementation for every generated case. *)
From Coq Require Import List NArith ZArith QArith Bool Permutation.
From JS Require Import Str StrFacts Lit Json Res GoValue Schema CodecBase Codec Basic MarshalFacts.
Import ListNotations.

Theorem C05_boolean_forms :
  marshal empty_schema = Ok (DBool true) /\ marshal false_schema = Ok (DBool false) /\
  unmarshal (DBool true) = Ok empty_schema /\ unmarshal (DBool false) = Ok false_schema.
Proof. vm_compute. repeat split. Qed.
Print Assumptions C05_boolean_forms.

(** the marshalled "properties" object is determined by the map as a set and the order list *)
Theorem C05_properties_deterministic : forall ma props props' order,
  NoDup (keys props) -> Permutation props props' -> enc_props ma props order = enc_props ma props' order.
Proof. exact enc_props_perm. Qed.
Print Assumptions C05_properties_deterministic.

Example C05_roundtrip_example :
  (* a schema with an empty enum, nested subschemas, an integral float and an unknown keyword *)
  let d := DObj [ (lit "enum"%lit, DArr []); (lit "minLength"%lit, DNum NFFrac (2#1));
                  (lit "not"%lit, DObj [ (lit "properties"%lit, DObj [ (lit "a"%lit, DBool false) ]) ]);
                  (lit "x-unknown"%lit, DArr [DNum NFInt (1#1)]) ] in
  match unmarshal d with
  | Ok s => match marshal s with
            | Ok d' => match unmarshal d' with
                       | Ok s' => marshal s' = Ok d' /\ s' = s
                       | _ => False
                       end
            | _ => False
            end
  | _ => False
  end.
Proof. vm_compute. split; reflexivity. Qed.
