(** C13 - A Resolved and shared schemas are safe for concurrent use.  (partial)
    The theorem is about programs of a given form - goroutines whose steps read shared
    state and write only their own, plus memo tables whose entries are a function of the
    key; that the package's code has this form is what gen/ObWrites.v (write footprint,
    regenerated from the sources on every run) and the -race correspondence family [conc]
    check.  The Go memory model and scheduler are not modelled. *)
From Coq Require Import List Arith Bool ZArith.
From JS Require Import Str Json Res GoValue Hash Schema Env Ann Validate Conc ConcFacts ConcValidate.
Import ListNotations.

(** every interleaving (with any pattern of lost memo stores, from any warm or cold memo
    table) leaves each goroutine where it would be after running alone *)
Theorem C13_schedule_independent :
  forall (R K V L : Type) (K_eqb : K -> K -> bool),
  (forall a b, K_eqb a b = true -> a = b) ->
  forall (f : R -> K -> V) (prog : R -> L -> req K V L) ro m0 init sigma,
  memo_ok R K V K_eqb f ro m0 ->
  let g := run R K V L K_eqb f prog ro sigma (mkG K V L m0 init) in
  memo_ok R K V K_eqb f ro (g_memo K V L g) /\
  length (g_loc K V L g) = length init /\
  forall t l0, nth_error init t = Some l0 ->
               nth_error (g_loc K V L g) t = Some (Nat.iter (count t sigma) (pstep R K V L f prog ro) l0).
Proof. exact schedule_independent. Qed.
Print Assumptions C13_schedule_independent.

(** hence any two schedules giving every goroutine as many steps - an interleaving and the
    sequential execution - end in the same per-goroutine states *)
Theorem C13_same_as_sequential :
  forall (R K V L : Type) (K_eqb : K -> K -> bool),
  (forall a b, K_eqb a b = true -> a = b) ->
  forall (f : R -> K -> V) (prog : R -> L -> req K V L) ro m0 m0' init s1 s2,
  memo_ok R K V K_eqb f ro m0 -> memo_ok R K V K_eqb f ro m0' -> (forall t, count t s1 = count t s2) ->
  g_loc K V L (run R K V L K_eqb f prog ro s1 (mkG K V L m0 init)) =
  g_loc K V L (run R K V L K_eqb f prog ro s2 (mkG K V L m0' init)).
Proof. exact schedules_agree. Qed.
Print Assumptions C13_same_as_sequential.

(** k goroutines making any number of Validate calls each on one shared Resolved: under
    every schedule that lets them finish, each call returns what it returns alone *)
Theorem C13_validate : forall re_match hash fuel e (calls : list (list gv)) sigma,
  (forall t insts, nth_error calls t = Some insts -> length insts <= count t sigma) ->
  let g := run env unit unit (gor) ueqb no_memo (vprog re_match hash fuel) e sigma
               (mkG _ _ _ [] (map (fun insts => (insts, [])) calls)) in
  forall t insts, nth_error calls t = Some insts ->
    nth_error (g_loc _ _ _ g) t = Some ([], map (Validate re_match hash fuel e) insts).
Proof. exact Validate_concurrent. Qed.
Print Assumptions C13_validate.

(** non-vacuity: two goroutines, three steps in the order 1,0,1 *)
Example C13_example :
  count 1 [(1, true); (0, false); (1, true)] = 2 /\ count 0 [(1, true); (0, false); (1, true)] = 1.
Proof. split; reflexivity. Qed.
