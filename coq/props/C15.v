(** C15 - ApplyDefaults only adds declared defaults; ValidateDefaults checks them.  (partial:
    idempotence and "every inserted value is a declared default" are evaluated as laws on
    the package and decided by the correspondence, not proved) *)
From Coq Require Import List NArith ZArith QArith Bool.
From JS Require Import Str Lit Json Res GoValue Hash Schema CodecBase Basic Env Ann Validate Resolve Defaults DefaultsFacts.
Import ListNotations.

(** every value already present is kept (objects may only grow): the result extends the instance *)
Theorem C15_extends : forall n s j, json_le j (apply_defaults n s j).
Proof. exact apply_extends. Qed.
Print Assumptions C15_extends.

(** a required property is never filled *)
Theorem C15_required : forall n s m k,
  is_required s k = true -> lookup k m = None ->
  match apply_defaults n s (JObj m) with JObj m' => lookup k m' = None | _ => False end.
Proof. exact required_never_filled. Qed.
Print Assumptions C15_required.

(** nothing outside the declared properties is ever added *)
Theorem C15_only_declared : forall n s m k,
  lookup k (match s_properties s with Some ps => ps | None => [] end) = None -> lookup k m = None ->
  match apply_defaults n s (JObj m) with JObj m' => lookup k m' = None | _ => False end.
Proof. exact only_declared_properties_added. Qed.
Print Assumptions C15_only_declared.

(** non-objects at any position are left alone *)
Theorem C15_non_object : forall n s j, (forall m, j <> JObj m) -> apply_defaults n s j = j.
Proof. exact non_object_unchanged. Qed.
Print Assumptions C15_non_object.

(** Resolve with ValidateDefaults succeeds exactly when every default in the root tree
    validates against the subschema that declares it (and no $dynamicRef is present) *)
Theorem C15_validate_defaults : forall re_match hash fuel e root,
  validateDefaults re_match hash fuel e root = Ok tt <->
  (isValidSchemaVersion (e_version e) = true /\
   forall p c, In (p, c) (all_sub root) ->
     s_dynamicRef c = [] /\
     (forall d, s_default c = Some d -> exists a, validate re_match hash fuel e [] (decode_any d) (0%nat, p) c = Ok a)).
Proof. exact validateDefaults_iff. Qed.
Print Assumptions C15_validate_defaults.

Example C15_example :
  (* {properties:{p:{properties:{q:{default:1}},required:[q]}, r:{default:"s"}}} on {} : r is filled,
     p is not (its only default sits on a required property - the former defect O-11) *)
  let q := set_default (Some (DNum NFInt (1#1))) empty_schema in
  let p := set_required (Some [lit "q"%lit]) (set_properties (Some [(lit "q"%lit, q)]) empty_schema) in
  let r := set_default (Some (DStr (lit "s"%lit))) empty_schema in
  let s := set_properties (Some [(lit "p"%lit, p); (lit "r"%lit, r)]) empty_schema in
  ApplyDefaults s (JObj []) = JObj [(lit "r"%lit, JStr (lit "s"%lit))].
Proof. vm_compute. reflexivity. Qed.
