(** C15 - ApplyDefaults only adds declared defaults, idempotently; ValidateDefaults checks them.
    Proofs: dfl/DefaultsFacts.v, dfl/Idempotent.v. *)
From Coq Require Import List NArith ZArith QArith Bool.
From JS Require Import Str Lit Json Res GoValue Hash Schema CodecBase Basic Env Ann Validate Resolve Defaults DefaultsFacts Idempotent.
Import ListNotations.

(** applying the defaults again changes nothing (instances with distinct member names,
    schemas whose property maps have distinct keys - Go maps) *)
Theorem C15_idempotent : forall n s j, props_nodup n s -> json_wf j = true ->
  apply_defaults n s (apply_defaults n s j) = apply_defaults n s j.
Proof. exact apply_idempotent. Qed.
Print Assumptions C15_idempotent.

(** what is inserted for an absent non-required property: its declared default completed
    with the nested defaults, or (without one) an object completed with the defaults below it
    when there are any, and otherwise nothing *)
Theorem C15_inserted : forall n s l m k sub,
  NoDup (keys l) -> In (k, sub) l -> is_required s k = false -> lookup k m = None ->
  lookup k (fold_left (step n s) l m) =
  match s_default sub with
  | Some d => Some (apply_defaults n sub (doc_value d))
  | None => if has_defaults n sub then Some (apply_defaults n sub (JObj [])) else None
  end.
Proof. exact inserted_value. Qed.
Print Assumptions C15_inserted.

(** every value already present is kept (objects may only grow): the result extends the instance *)
Theorem C15_extends : forall n s j, json_le j (apply_defaults n s j).
Proof. exact apply_extends. Qed.
Print Assumptions C15_extends.

(** a required property is never filled *)
Theorem C15_required : forall n s m k,
  is_required s k = true -> lookup k m = None ->
  match apply_defaults n s (JObj m) with JObj m' => lookup k m' = None | _ => False end.
Proof. exact required_never_filled. Qed.
Print Assumptions C15_required.

(** nothing outside the declared properties is ever added *)
Theorem C15_only_declared : forall n s m k,
  lookup k (match s_properties s with Some ps => ps | None => [] end) = None -> lookup k m = None ->
  match apply_defaults n s (JObj m) with JObj m' => lookup k m' = None | _ => False end.
Proof. exact only_declared_properties_added. Qed.
Print Assumptions C15_only_declared.

(** non-objects at any position are left alone *)
Theorem C15_non_object : forall n s j, (forall m, j <> JObj m) -> apply_defaults n s j = j.
Proof. exact non_object_unchanged. Qed.
Print Assumptions C15_non_object.

(** Resolve with ValidateDefaults succeeds exactly when every default in the root tree
    validates against the subschema that declares it (and no $dynamicRef is present) *)
Theorem C15_validate_defaults : forall re_match hash fuel e root,
  validateDefaults re_match hash fuel e root = Ok tt <->
  (isValidSchemaVersion (e_version e) = true /\
   forall p c, In (p, c) (all_sub root) ->
     s_dynamicRef c = [] /\
     (forall d, s_default c = Some d -> exists a, validate re_match hash fuel e [] (decode_any d) (0%nat, p) c = Ok a)).
Proof. exact validateDefaults_iff. Qed.
Print Assumptions C15_validate_defaults.

Example C15_example :
  (* {properties:{p:{properties:{q:{default:1}},required:[q]}, r:{default:"s"}}} on {} : r is filled,
     p is not (its only default sits on a required property - the former defect O-11) *)
  let q := set_default (Some (DNum NFInt (1#1))) empty_schema in
  let p := set_required (Some [lit "q"%lit]) (set_properties (Some [(lit "q"%lit, q)]) empty_schema) in
  let r := set_default (Some (DStr (lit "s"%lit))) empty_schema in
  let s := set_properties (Some [(lit "p"%lit, p); (lit "r"%lit, r)]) empty_schema in
  ApplyDefaults s (JObj []) = JObj [(lit "r"%lit, JStr (lit "s"%lit))].
Proof. vm_compute. reflexivity. Qed.
