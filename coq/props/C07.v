(** C07 - unevaluatedProperties / unevaluatedItems see exactly what adjacent and in-place
    keywords evaluated. *)
From Coq Require Import List NArith ZArith QArith Bool.
From JS Require Import Str Lit Json Res GoValue Hash Schema Env Ann Validate Spec RefineBase RefineArr RefineObj Refine Corollaries.
Import ListNotations.
Local Open Scope nat_scope.

(** The code's compressed bookkeeping (allItems, endIndex, evaluatedIndexes, allProperties,
    evaluatedProperties) denotes, on success, exactly the specification's evaluated sets:
    this is the [gamma_ok] half of [agrees]. *)
Theorem C07_abstraction : forall re_match hash e n C inst l s sg,
  gv_wf inst = true ->
  spec_eval re_match n e C (den inst) l s = Some (true, sg) ->
  exists a, validate re_match hash n e C inst l s = Ok a /\
            (forall i, i < arr_len (den inst) -> inI a i = sinI sg i) /\
            (forall k, In k (obj_keys (den inst)) -> inP a k = sinP sg k).
Proof.
  intros. pose proof (validate_refines re_match hash e n C inst l s (true, sg) H H0) as Ha.
  unfold agrees in Ha. cbn [fst snd] in Ha. destruct Ha as (a & Hv & HI & HP). eauto.
Qed.
Print Assumptions C07_abstraction.

(** unevaluatedItems is applied to exactly the indexes outside sigma-minus (and
    unevaluatedProperties to exactly the members outside it): the code's loop agrees with the
    specification's filter. *)
Theorem C07_items_complement : forall hash v ev
  (Hagree : forall g l c sr, gv_wf g = true -> ev (den g) l c = Some sr -> agrees (den g) (v g l c) sr)
  (Hunique : forall s items, wfl items -> check_unique hash s items = guard (if s_uniqueItems s then distinct (map den items) else true))
  l s gitems a2 sgm ok_ui i_ui,
  wfl gitems ->
  (forall i, i < length gitems -> inI a2 i = sinI sgm i) ->
  spec_uneval_items ev (JArr (map den gitems)) l s sgm = Some (ok_ui, i_ui) ->
  if ok_ui
  then exists a', uneval_items_part v l s gitems a2 = Ok a' /\
                  (forall i, i < length gitems -> inI a' i = sinI sgm i || mem_nat i i_ui) /\
                  (forall k, inP a' k = inP a2 k)
  else uneval_items_part v l s gitems a2 = Err.
Proof. exact uneval_items_part_spec. Qed.
Print Assumptions C07_items_complement.

(** Evaluations made inside a subschema that failed do not count. *)
Theorem C07_failed_contributes_nothing : forall re_match e ev C j l s sg,
  spec_body re_match e ev C j l s = Some (false, sg) -> sg = sig0.
Proof. exact spec_failed_no_annotations. Qed.
Print Assumptions C07_failed_contributes_nothing.
