(** C18 - Non-asserting and unknown keywords never change a verdict. *)
From Coq Require Import List NArith ZArith QArith Bool.
From JS Require Import Str Lit Json Res GoValue Hash Schema CodecBase Codec Env Ann Validate NonAsserting.
Import ListNotations.

(** The evaluation of a schema object reads only the asserting keywords: two schema objects
    that differ in title, description, $comment, default, examples, deprecated, readOnly,
    writeOnly, format, contentEncoding, contentMediaType, contentSchema, $defs/definitions,
    Extra (unknown keywords) evaluate identically. *)
Theorem C18_non_asserting_not_read : forall re_match hash e v stack inst l s s',
  same_asserting s s' ->
  validate_body re_match hash e v stack inst l s = validate_body re_match hash e v stack inst l s'.
Proof. exact validate_body_non_asserting. Qed.
Print Assumptions C18_non_asserting_not_read.

(** A member whose name is not exactly a keyword never touches a Schema field and never
    makes Unmarshal fail (keywords are matched case-sensitively). *)
Theorem C18_unknown_ignored : forall un k v st,
  mem_str k known_names = false -> apply_member un k v st = Ok st.
Proof. exact unknown_member_ignored. Qed.
Print Assumptions C18_unknown_ignored.
