(** C18 - Non-asserting and unknown keywords never change a verdict. *)
From Coq Require Import List NArith ZArith QArith Bool Permutation.
From JS Require Import Str Lit Json Res GoValue Hash Schema CodecBase Codec Env Ann Validate NonAsserting Spec SchemaRel SchemaPerm Uri Resolve ResolveRel Decorations.
Import ListNotations.

(** The evaluation of a schema object reads only the asserting keywords: two schema objects
    that differ in title, description, $comment, default, examples, deprecated, readOnly,
    writeOnly, format, contentEncoding, contentMediaType, contentSchema, $defs/definitions,
    Extra (unknown keywords) evaluate identically. *)
Theorem C18_non_asserting_not_read : forall re_match hash e v stack inst l s s',
  same_asserting s s' ->
  validate_body re_match hash e v stack inst l s = validate_body re_match hash e v stack inst l s'.
Proof. exact validate_body_non_asserting. Qed.
Print Assumptions C18_non_asserting_not_read.

(** A member whose name is not exactly a keyword never touches a Schema field and never
    makes Unmarshal fail (keywords are matched case-sensitively). *)
Theorem C18_unknown_ignored : forall un k v st,
  mem_str k known_names = false -> apply_member un k v st = Ok st.
Proof. exact unknown_member_ignored. Qed.
Print Assumptions C18_unknown_ignored.

(** Globally: two schema trees related by [srel] - equal except for the annotation-only scalar
    keywords (title, description, $comment, default, deprecated, readOnly, writeOnly, examples,
    format, contentEncoding, contentMediaType), the unknown keywords (Extra) of every schema object
    at every depth, and the order of map entries - resolve alike (the same outcome, the same Loader
    calls, related Resolved values) and give every instance the same verdict.  Adding, removing or
    changing such keywords anywhere ([C18_decorate]: each setter keeps two trees related, on either
    side) therefore never changes a verdict.  The subschema-bearing non-asserting keywords
    (contentSchema, unreferenced $defs / definitions entries) change the shape of the tree and
    are covered locally ([C18_non_asserting_not_read]) and by the correspondence family decor. *)
Theorem C18_annotations_resolve : forall re_ok fuel root root' baseURI loader loader',
  srel root root' -> lrel loader loader' ->
  rrel resrel (Resolve re_ok fuel root baseURI loader) (Resolve re_ok fuel root' baseURI loader').
Proof. exact Resolve_srel. Qed.
Print Assumptions C18_annotations_resolve.

Theorem C18_annotations_verdict : forall re_ok re_match hash fuel root root' baseURI loader loader' e calls,
  srel root root' -> lrel loader loader' ->
  Resolve re_ok fuel root baseURI loader = Ok (e, calls) ->
  exists e', Resolve re_ok fuel root' baseURI loader' = Ok (e', calls) /\
    forall n inst b, gv_wf inst = true -> isValidSchemaVersion (e_version e) = true ->
      spec_valid re_match n e (den inst) = Some b ->
      Validate re_match hash n e inst = Validate re_match hash n e' inst.
Proof. exact Resolve_Validate_map_order. Qed.
Print Assumptions C18_annotations_verdict.

Theorem C18_decorate : forall s s', srel s s' ->
  (forall x, srel (set_title x s) s') /\ (forall x, srel (set_description x s) s') /\ (forall x, srel (set_comment x s) s') /\
  (forall x, srel (set_default x s) s') /\ (forall x, srel (set_deprecated x s) s') /\ (forall x, srel (set_readOnly x s) s') /\
  (forall x, srel (set_writeOnly x s) s') /\ (forall x, srel (set_examples x s) s') /\ (forall x, srel (set_format x s) s') /\
  (forall x, srel (set_contentEncoding x s) s') /\ (forall x, srel (set_contentMediaType x s) s') /\ (forall x, srel (set_extra x s) s') /\
  (forall x, srel s (set_title x s')) /\ (forall x, srel s (set_description x s')) /\ (forall x, srel s (set_comment x s')) /\
  (forall x, srel s (set_default x s')) /\ (forall x, srel s (set_deprecated x s')) /\ (forall x, srel s (set_readOnly x s')) /\
  (forall x, srel s (set_writeOnly x s')) /\ (forall x, srel s (set_examples x s')) /\ (forall x, srel s (set_format x s')) /\
  (forall x, srel s (set_contentEncoding x s')) /\ (forall x, srel s (set_contentMediaType x s')) /\ (forall x, srel s (set_extra x s')).
Proof.
  intros s s' H. repeat match goal with |- _ /\ _ => split end; intros y;
    first [ now apply srel_set_title | now apply srel_set_description | now apply srel_set_comment | now apply srel_set_default
          | now apply srel_set_deprecated | now apply srel_set_readOnly | now apply srel_set_writeOnly | now apply srel_set_examples
          | now apply srel_set_format | now apply srel_set_contentEncoding | now apply srel_set_contentMediaType | now apply srel_set_extra
          | now apply srel_set_title_r | now apply srel_set_description_r | now apply srel_set_comment_r | now apply srel_set_default_r
          | now apply srel_set_deprecated_r | now apply srel_set_readOnly_r | now apply srel_set_writeOnly_r | now apply srel_set_examples_r
          | now apply srel_set_format_r | now apply srel_set_contentEncoding_r | now apply srel_set_contentMediaType_r | now apply srel_set_extra_r ].
Qed.
Print Assumptions C18_decorate.

(** non-vacuity: {"properties": {"a": {"type": "integer"}}} and the same tree with a title at the
    root, a description and an unknown keyword on the property are related *)
Lemma srel_empty18 : srel empty_schema empty_schema.
Proof. constructor; try reflexivity; constructor. Qed.
Example C18_decorated_example :
  let leaf := set_type (lit "integer"%lit) empty_schema in
  let plain := set_properties (Some [(lit "a"%lit, leaf)]) empty_schema in
  let decorated := set_title (lit "t"%lit)
                     (set_properties (Some [(lit "a"%lit, set_description (lit "d"%lit) (set_extra (Some [(lit "x-note"%lit, GInt 1%Z)]) leaf))]) empty_schema) in
  srel plain decorated.
Proof.
  cbn zeta. apply srel_set_title_r.
  constructor; try reflexivity; try (constructor; fail).
  constructor. split; [repeat constructor; cbn; intuition|].
  eexists. split; [apply Permutation_refl|]. constructor; [|constructor]. split; [reflexivity|]. cbn [snd].
  apply srel_set_description_r, srel_set_extra_r.
  constructor; try reflexivity; constructor.
Qed.
