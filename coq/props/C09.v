(** C09 - JSON accepted by an inferred schema decodes into the type.
    Schema side, for every type of the domain [dom]: the verdict of the inferred schema is the computable function
    [conforms] of the Go type alone - the JSON shape of the type: the right JSON type, the
    range of a sized integer, the length of an array, every element / member value fitting in
    turn, no undeclared struct member, every member without omitempty/omitzero present, null
    only behind a pointer (or for a slice); the implementation's verdicts are compared with
    [conforms] itself (spec_mv).
    Decoder side: [decodes] (inf/Decode.v) models when encoding/json with DisallowUnknownFields
    decodes a JSON value into a type without error (null anywhere, integers within the kind's
    range, float32 within range, exact or case-folded member names, no unknown member, extra
    array elements dropped ...); it is compared with the real decoder on every mutated
    document of every case of its domain (spec_impl_decall), and C09_accepted_decode proves
    that what the inferred schema accepts, the decoder takes - for types without marshaler
    types and without float32 (finding O-9a), integers within int64, objects without
    duplicate members.  (partial: the decoder is a model, validated differentially.) *)
From Coq Require Import List NArith ZArith QArith Bool.
From JS Require Import Str Lit Json Res GoValue Schema Basic Env Spec Validate Resolve GoType Encode Infer Accept WellTyped C04Main C09Facts Domain Verdict VerdictEnd Decode JsonFacts.
Import ListNotations.
Local Open Scope nat_scope.

Theorem C09_scalar_verdict : forall re_match e o n seen t s,
  e_draft7 e = false -> is_scalar t = true -> infer o (S n) seen t = Ok (Some s) ->
  forall j k C l, exists sg, spec_eval re_match (S k) e C j l s = Some (decodes_scalar t j, sg).
Proof. exact scalar_verdict. Qed.
Print Assumptions C09_scalar_verdict.

(** e.g. 128 is rejected for int8, 127 accepted; 1.5 rejected for any integer kind *)
Example C09_example :
  decodes_scalar (TyInt KInt8) (JNum (128#1)) = false /\ decodes_scalar (TyInt KInt8) (JNum (127#1)) = true /\
  decodes_scalar (TyInt KUint32) (JNum (3#2)) = false /\ decodes_scalar TyString (JNum 1) = false.
Proof. vm_compute. repeat split. Qed.

(** the verdict of an inferred schema, for every type of the domain and every JSON value *)
Theorem C09_verdict : forall re_match e o,
  e_draft7 e = false -> o_ignore o = false ->
  (forall n x, lookup n (o_schemas o) = Some x -> x = Some str_schema) ->
  forall t s, dom o t = true -> ForType o t = Ok (Some s) -> decides re_match e s (conforms o 64 t).
Proof. exact ForType_decides. Qed.
Print Assumptions C09_verdict.

(** ... and through Resolve and Validate *)
Theorem C09_end_to_end : forall re_ok re_match hash o,
  o_ignore o = false ->
  (forall n x, lookup n (o_schemas o) = Some x -> x = Some str_schema) ->
  forall t s fuel e calls,
  dom o t = true -> ForType o t = Ok (Some s) ->
  Resolve re_ok fuel s [] None = Ok (e, calls) ->
  forall inst, gv_wf inst = true ->
  exists n, forall n', n <= n' ->
    Validate re_match hash n' e inst = if conforms o 64 t (den inst) then Ok tt else Err.
Proof. exact For_Resolve_Validate_verdict. Qed.
Print Assumptions C09_end_to_end.

(** [conforms] is not too strict: every encoding of a value conforms (C04 read through C09) *)
Theorem C09_encodings_conform : forall oz o,
  o_ignore o = false -> o_tsnull o = false ->
  (forall n x, lookup n (o_schemas o) = Some x -> x = Some str_schema) ->
  forall t s, dom o t = true -> ForType o t = Ok (Some s) ->
  forall m v k j, wt m t v = true -> encode oz k t v = Some j -> conforms o 64 t j = true.
Proof. exact encode_conforms. Qed.
Print Assumptions C09_encodings_conform.

(** a struct { A int8 `json:"a"`; B []string `json:"b,omitempty"`; C *bool }: an undeclared member,
    a missing required member, an out-of-range number and null for a non-pointer are all rejected *)
Definition fT (n : str) (tag : str) (has : bool) : finfo :=
  {| fi_name := n; fi_exported := true; fi_embedded := false; fi_hastag := has; fi_tag := tag; fi_desc := None |}.
Definition tS : gtype :=
  TyStruct [(fT (lit "A"%lit) (lit "a"%lit) true, TyInt KInt8);
            (fT (lit "B"%lit) (lit "b,omitempty"%lit) true, TySlice TyString);
            (fT (lit "C"%lit) [] false, TyPtr TyBool)].
Definition oS : iopts := {| o_ignore := false; o_tsnull := false; o_schemas := [] |}.
Definition num (z : Z) : json := JNum (z # 1).
Example C09_struct_example :
  dom oS tS = true /\
  (exists s, ForType oS tS = Ok (Some s)) /\
  conforms oS 64 tS (JObj [(lit "a"%lit, num 5); (lit "C"%lit, JNull)]) = true /\
  conforms oS 64 tS (JObj [(lit "a"%lit, num 5); (lit "C"%lit, JBool true); (lit "b"%lit, JArr [JStr (lit "x"%lit)])]) = true /\
  conforms oS 64 tS (JObj [(lit "a"%lit, num 5); (lit "C"%lit, JNull); (lit "d"%lit, JNull)]) = false /\   (* undeclared member *)
  conforms oS 64 tS (JObj [(lit "a"%lit, num 5)]) = false /\                                        (* C is required *)
  conforms oS 64 tS (JObj [(lit "a"%lit, num 200); (lit "C"%lit, JNull)]) = false /\                    (* int8 *)
  conforms oS 64 tS (JObj [(lit "a"%lit, JNull); (lit "C"%lit, JNull)]) = false /\                      (* null for an int8 *)
  conforms oS 64 tS (JObj [(lit "a"%lit, num 5); (lit "C"%lit, JNull); (lit "b"%lit, JNull)]) = true /\     (* null for a slice *)
  conforms oS 64 tS JNull = false.
Proof. vm_compute. repeat split; eauto. Qed.

(** what the inferred schema accepts, the decoder takes *)
Theorem C09_conforms_decodes : forall o n t j g,
  good g o t -> nostd t = true -> json_wf j = true -> in_i64 j = true ->
  conforms o n t j = true -> decodes n t j = true.
Proof. exact conforms_decodes. Qed.
Print Assumptions C09_conforms_decodes.

(** end to end in the model: For, Resolve, Validate = nil  ==>  the decoder model accepts *)
Theorem C09_accepted_decode : forall re_ok re_match hash o,
  o_ignore o = false ->
  (forall n x, lookup n (o_schemas o) = Some x -> x = Some str_schema) ->
  forall t s fuel e calls,
  dom o t = true -> nostd t = true -> ForType o t = Ok (Some s) ->
  Resolve re_ok fuel s [] None = Ok (e, calls) ->
  forall inst, gv_wf inst = true -> json_wf (den inst) = true -> in_i64 (den inst) = true ->
  exists n : nat, forall n' : nat, (n <= n')%nat -> Validate re_match hash n' e inst = Ok tt -> decodes 64 t (den inst) = true.
Proof. exact accepted_decodes. Qed.
Print Assumptions C09_accepted_decode.

(** the decoder model on the example type: case-folded names are matched, unknown members and
    out-of-range integers refused, null accepted everywhere *)
Example C09_decodes_example :
  nostd tS = true /\
  decodes 64 tS (JObj [(lit "a"%lit, num 5); (lit "C"%lit, JNull)]) = true /\
  decodes 64 tS (JObj [(lit "A"%lit, num 5); (lit "c"%lit, JBool true)]) = true /\      (* folded names *)
  decodes 64 tS (JObj [(lit "a"%lit, JNull)]) = true /\                                   (* null leaves the zero value; C may be missing *)
  decodes 64 tS (JObj [(lit "a"%lit, num 5); (lit "d"%lit, JNull)]) = false /\           (* unknown member *)
  decodes 64 tS (JObj [(lit "a"%lit, num 200)]) = false /\                                (* int8 *)
  decodes 64 tS (JObj [(lit "b"%lit, JArr [num 1])]) = false.                              (* []string *)
Proof. vm_compute. repeat split. Qed.
