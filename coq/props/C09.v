(** C09 - JSON accepted by an inferred schema decodes into the type.  (partial)
    The decoder of encoding/json is not modelled; what is proved is the schema side for the
    scalar types: the inferred schema accepts exactly the JSON values the decoder takes for
    the type - the right JSON type and, for sized integers, the range of the kind.  For
    structs, slices, arrays and maps the property is decided by the correspondence law on the
    real decoder (family infer: every mutated document the schema accepts must decode with
    DisallowUnknownFields). *)
From Coq Require Import List NArith ZArith QArith Bool.
From JS Require Import Str Lit Json Res Schema Basic Env Spec GoType Infer Accept C09Facts.
Import ListNotations.
Local Open Scope nat_scope.

Theorem C09_scalar_verdict : forall re_match e o n seen t s,
  e_draft7 e = false -> is_scalar t = true -> infer o (S n) seen t = Ok (Some s) ->
  forall j k C l, exists sg, spec_eval re_match (S k) e C j l s = Some (decodes_scalar t j, sg).
Proof. exact scalar_verdict. Qed.
Print Assumptions C09_scalar_verdict.

(** e.g. 128 is rejected for int8, 127 accepted; 1.5 rejected for any integer kind *)
Example C09_example :
  decodes_scalar (TyInt KInt8) (JNum (128#1)) = false /\ decodes_scalar (TyInt KInt8) (JNum (127#1)) = true /\
  decodes_scalar (TyInt KUint32) (JNum (3#2)) = false /\ decodes_scalar TyString (JNum 1) = false.
Proof. vm_compute. repeat split. Qed.
