(** C16 - placeholder statements; see inf/InferFacts.v *)
From Coq Require Import List NArith ZArith QArith Bool.
From JS Require Import Str Lit Json Res GoValue Schema Basic GoType Encode Infer InferFacts.
Import ListNotations.

Theorem C16_names_distinct : forall ovr t, NoDup (map jf_name (json_fields ovr t)).
Proof. exact json_fields_names_nodup. Qed.
Print Assumptions C16_names_distinct.
