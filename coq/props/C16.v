(** C16 - For is a deterministic, isolating function of type and options.
    In the model For is a Gallina function (equal arguments give equal results) returning an
    immutable tree (nothing is shared by construction); freshness and sharing of *Schema
    objects in the package are decided by the correspondence laws of family infer.
    Proved here: the shape of the result for structs and the cycle check. *)
From Coq Require Import List NArith ZArith QArith Bool.
From JS Require Import Str Lit Json Res Schema Basic GoType Encode Infer InferFacts C04Main C16Facts.
Import ListNotations.
Local Open Scope nat_scope.

(** the properties of a struct's schema are exactly the fields encoding/json emits (its
    field selection [json_fields], validated against the real encoder on every run), under
    their JSON names and in field order (PropertyOrder); each property's schema is the
    field type's inferred schema (plus its jsonschema description); a field is required
    exactly when its tag has neither omitempty nor omitzero; unknown members are refused *)
Theorem C16_struct_fields : forall o rec t0 s,
  (forall t, rec t <> Ok None) ->
  json_fields (ovr_of o) t0 = json_fields (fun _ => false) t0 ->
  (forall f, In f (json_fields (fun _ => false) t0) -> jf_override f = false) ->
  infer_struct o rec t0 = Ok s ->
  let L := json_fields (fun _ => false) t0 in
  exists ps,
    s_properties s = (if has_fields t0 then Some ps else None) /\
    map fst ps = map jf_name L /\
    Forall2 (fun f p => field_schema_ok rec f (snd p)) L ps /\
    s_required s = (match map jf_name (filter (fun f => negb (omit_set f)) L) with [] => None | r => Some r end) /\
    s_propertyOrder s = (match map jf_name L with [] => None | x => Some x end) /\
    s_type s = lit "object"%lit /\ s_additionalProperties s = Some false_schema.
Proof. exact infer_struct_fields. Qed.
Print Assumptions C16_struct_fields.

(** the selected fields have pairwise distinct JSON names *)
Theorem C16_names_distinct : forall ovr t, NoDup (map jf_name (json_fields ovr t)).
Proof. exact json_fields_names_nodup. Qed.
Print Assumptions C16_names_distinct.

(** a defined type met again while it is being inferred is an error at once: recursive
    types end in an error, not in a hang *)
Theorem C16_cycle : forall o n seen t,
  nonempty (type_name (snd (strip_ptrs t))) = true ->
  mem_str (type_name (snd (strip_ptrs t))) seen = true ->
  infer o (S n) seen t = Err.
Proof. exact infer_cycle. Qed.
Print Assumptions C16_cycle.

(** with IgnoreInvalidTypes off nothing is silently dropped *)
Theorem C16_nothing_dropped : forall o, o_ignore o = false -> forall n seen t, infer o n seen t <> Ok None.
Proof. exact infer_not_none. Qed.
Print Assumptions C16_nothing_dropped.

(** type R struct { Next *R; V int } *)
Example C16_recursive :
  ForType (mkO false false [])
    (TyNamed (lit "main.R"%lit) (TyStruct [
       (mkF (lit "Next"%lit) true false false [] None, TyPtr (TyRec (lit "main.R"%lit)));
       (mkF (lit "V"%lit) true false false [] None, TyInt KInt)])) = Err.
Proof. vm_compute. reflexivity. Qed.
