(** C03 - Every $ref reaches the subschema the specification designates.  (partial)
    What is proved here: the fragment half of designation (JSON Pointer fragments reach
    exactly the location they spell, never another schema), the scope lookup of anchors is
    per resource by construction of the resolver model, and the URI functions are
    executable transcriptions compared with net/url on every run.  Over the
    resolver state machine: the loader is asked at most once per URI (C03_loader_once), the
    Resolved is rooted at the given schema, and resolution always returns (props/C10.v:
    never a panic, nested loads bounded by the loader's table).  The lexical specification
    of base URIs / resources (DESIGN Appendix B) is NOT proved; that part of the property is
    decided by the correspondence over generated universes. *)
From Coq Require Import List NArith ZArith QArith Bool.
From JS Require Import Str Lit Json Res GoValue Schema Basic Pointer PointerFacts ChildFacts Addressable Env Uri Resolve ResolveFacts ResolveTotal.
Import ListNotations.

Theorem C03_pointer_fragment_sound : forall s ptr p c,
  dereferenceJSONPointer s ptr = Ok (p, c) -> subschema_at s p = Some c.
Proof. exact dereference_sound. Qed.
Print Assumptions C03_pointer_fragment_sound.

Theorem C03_pointer_fragment_complete : forall s p c,
  subschema_at s p = Some c -> dereferenceJSONPointer s (render (map token p)) = Ok (p, c).
Proof. exact dereference_complete. Qed.
Print Assumptions C03_pointer_fragment_complete.

(** the Resolved is rooted at the schema given to Resolve and carries its draft and $schema;
    documents are only ever appended to the resolver's state, each stored under the root it was
    loaded for (ResolveFacts.resolve_doc_docs) *)
Theorem C03_resolved_root : forall re_ok fuel root baseURI loader e calls,
  Resolve re_ok fuel root baseURI loader = Ok (e, calls) ->
  node_at e (0%nat, []) = Some root /\ e_draft7 e = detectDraft7 root /\ e_version e = s_schema root.
Proof. exact Resolve_root. Qed.
Print Assumptions C03_resolved_root.

(** the Loader is called at most once for each URI: a document is cached under its URI before
    its own references are followed, and the cache is consulted before every load *)
Theorem C03_loader_once : forall re_ok fuel root baseURI loader e calls,
  Resolve re_ok fuel root baseURI loader = Ok (e, calls) -> NoDup calls.
Proof. exact Resolve_loads_once. Qed.
Print Assumptions C03_loader_once.

(** non-vacuity / regression witnesses on the resolver model: a diamond of loader
    documents with an anchor fragment into a cached document (the former panic O-1), each
    document requested once *)
Example C03_diamond_example :
  let mk d := match JS.sch.Codec.unmarshal d with Ok s => s | _ => empty_schema end in
  let a := mk (DObj [ (lit "$id"%lit, DStr (lit "http://x/a"%lit));
                      (lit "properties"%lit, DObj [ (lit "p"%lit, DObj [ (lit "$ref"%lit, DStr (lit "c"%lit)) ]);
                                                     (lit "q"%lit, DObj [ (lit "$ref"%lit, DStr (lit "b"%lit)) ]) ]) ]) in
  let b := mk (DObj [ (lit "$ref"%lit, DStr (lit "c#foo"%lit)) ]) in
  let c := mk (DObj [ (lit "$anchor"%lit, DStr (lit "foo"%lit)); (lit "type"%lit, DStr (lit "string"%lit)) ]) in
  match JS.res.Resolve.Resolve (fun _ => true) 5 a [] (Some [ (lit "http://x/b"%lit, Some b); (lit "http://x/c"%lit, Some c) ]) with
  | Ok (_, calls) => calls = [lit "http://x/c"%lit; lit "http://x/b"%lit]
  | _ => False
  end.
Proof. vm_compute. reflexivity. Qed.
