(** C03 - Every $ref reaches the subschema the specification designates.  (partial)
    What is proved here: the fragment half of designation (JSON Pointer fragments reach
    exactly the location they spell, never another schema), the scope lookup of anchors is
    per resource by construction of the resolver model, and the URI functions are
    executable transcriptions compared with net/url on every run.  Over the
    resolver state machine: the loader is asked at most once per URI (C03_loader_once), the
    Resolved is rooted at the given schema, and resolution always returns (props/C10.v:
    never a panic, nested loads bounded by the loader's table).  Lexical designation
    (res/Designate.v): the tables resolveURIs builds are the lexical ones of the specification
    - [Lex]: a subschema with a non-fragment $id starts a resource whose URI is that $id
    resolved against the enclosing resource's URI, every other subschema belongs to its
    parent's resource; anchors belong to the resource that lexically encloses them - and a
    reference inside a document is resolved against the URI of its lexically enclosing
    resource, selects a resource of the document by URI, then an anchor declared inside that
    resource or a pointer from its root (C03_tables_lexical, C03_ref_designates).  What is
    not proved: uniqueness of the lexical base as a function of the location (it needs
    distinct locations, which holds for trees built from Go maps), and references that
    leave the document (decided by the correspondence over generated universes). *)
From Coq Require Import List NArith ZArith QArith Bool.
From JS Require Import Str Lit Json Res GoValue Schema Basic Pointer PointerFacts ChildFacts Addressable Env Uri Resolve ResolveFacts ResolveTotal Designate DesignateDocs LexFun Validate NoPanic ResolveEnvOK.
Import ListNotations.

Theorem C03_pointer_fragment_sound : forall s ptr p c,
  dereferenceJSONPointer s ptr = Ok (p, c) -> subschema_at s p = Some c.
Proof. exact dereference_sound. Qed.
Print Assumptions C03_pointer_fragment_sound.

Theorem C03_pointer_fragment_complete : forall s p c,
  subschema_at s p = Some c -> dereferenceJSONPointer s (render (map token p)) = Ok (p, c).
Proof. exact dereference_complete. Qed.
Print Assumptions C03_pointer_fragment_complete.

(** the Resolved is rooted at the schema given to Resolve and carries its draft and $schema;
    documents are only ever appended to the resolver's state, each stored under the root it was
    loaded for (ResolveFacts.resolve_doc_docs) *)
Theorem C03_resolved_root : forall re_ok fuel root baseURI loader e calls,
  Resolve re_ok fuel root baseURI loader = Ok (e, calls) ->
  node_at e (0%nat, []) = Some root /\ e_draft7 e = detectDraft7 root /\ e_version e = s_schema root.
Proof. exact Resolve_root. Qed.
Print Assumptions C03_resolved_root.

(** the Loader is called at most once for each URI: a document is cached under its URI before
    its own references are followed, and the cache is consulted before every load *)
Theorem C03_loader_once : forall re_ok fuel root baseURI loader e calls,
  Resolve re_ok fuel root baseURI loader = Ok (e, calls) -> NoDup calls.
Proof. exact Resolve_loads_once. Qed.
Print Assumptions C03_loader_once.

(** every table of a resolved document is lexical: recorded bases, resource URIs, registered
    URIs and anchors are exactly what the specification's scoping rule [Lex] gives *)
Theorem C03_tables_lexical : forall root d7 b0 di,
  (forall p x, In (p, x) (all_sub root) -> good_node x) ->
  resolveURIs root d7 b0 = Ok di -> Tables root d7 b0 None di /\ di_root di = root /\ di_draft7 di = d7.
Proof. exact resolveURIs_lex. Qed.
Print Assumptions C03_tables_lexical.

Theorem C03_ref_designates : forall loader rec di d st p ref st' d' t dynf root d7 b0,
  Tables root d7 b0 None di -> di_root di = root ->
  resolveRef loader rec di d st p ref = Ok (st', ((d', t), dynf)) ->
  exists ref0 base bu,
    parse_uri ref = POk ref0 /\
    (exists u, Lex root d7 b0 p base u) /\ Lex root d7 b0 base base bu /\
    let refURI := resolve_reference bu ref0 in
    match lookup (uri_string (drop_frag refURI)) (di_uris di) with
    | Some q =>
        d' = d /\
        ((q = [] /\ uri_string (drop_frag refURI) = uri_string b0) \/
         exists uq, Lex root d7 b0 q q uq /\ uri_string (drop_frag refURI) = uri_string uq) /\
        (nth_error (r_docs st') d = Some di ->
         match u_frag refURI with
         | [] => t = q
         | c :: _ =>
             if negb (N.eqb c 47) then
               exists dyn sa ua, Lex root d7 b0 t q ua /\ subschema_at root t = Some sa /\ declares d7 sa (u_frag refURI) dyn
             else exists rs r, subschema_at root q = Some rs /\ dereferenceJSONPointer rs (u_frag refURI) = Ok r /\ t = q ++ fst r
         end)
    | None => True
    end.
Proof. exact resolveRef_designates. Qed.
Print Assumptions C03_ref_designates.

(** the lexical base and the resource URI are functions of the location: a location has one
    parent location ([parent_unique]), so the scoping rule [Lex] assigns one base and one URI *)
Theorem C03_base_function : forall root d7 b0,
  (forall p x, In (p, x) (all_sub root) -> good_node x) ->
  forall p base u base' u', Lex root d7 b0 p base u -> Lex root d7 b0 p base' u' -> base = base' /\ u = u'.
Proof. exact Lex_function. Qed.
Print Assumptions C03_base_function.

(** references that leave their document: every document the resolver holds has lexical tables
    for the URI it was retrieved under ([DocLex]); the cache names a document by its retrieval URI
    or by the URI of its root resource ([INV]).  A reference whose non-fragment part names no
    resource of its own document designates the cached document of that URI, or the document the
    Loader returns for exactly that URI (then resolved under it, appended as a new document); its
    fragment is empty (the document root), an anchor declared lexically in that document's root
    resource, or a JSON pointer walked from that document's root *)
Theorem C03_remote_designates : forall re_ok loader rootDraft7 n di d st p ref st' d' t dynf ref0 base bu,
  (forall u s, call_loader loader u = Some s -> wfs s) ->
  INV st ->
  resolveRef loader (resolve_doc re_ok loader rootDraft7 n) di d st p ref = Ok (st', ((d', t), dynf)) ->
  parse_uri ref = POk ref0 -> lookup_path p (di_base di) = Some base -> lookup_path base (di_uri di) = Some bu ->
  let refURI := resolve_reference bu ref0 in
  let target := uri_string (drop_frag refURI) in
  lookup target (di_uris di) = None ->
  exists dk b0,
    nth_error (r_docs st') d' = Some dk /\ DocLex dk b0 /\
    (target = uri_string b0 \/ target = uri_string (root_uri dk b0)) /\
    (lookup target (r_cache st) = Some d' \/
     (lookup target (r_cache st) = None /\ call_loader loader target = Some (di_root dk) /\
      b0 = drop_frag refURI /\ d' = length (r_docs st))) /\
    match u_frag refURI with
    | [] => t = []
    | c :: _ =>
        if negb (N.eqb c 47) then
          exists dyn sa ua, Lex (di_root dk) (di_draft7 dk) b0 t [] ua /\ subschema_at (di_root dk) t = Some sa /\
                            declares (di_draft7 dk) sa (u_frag refURI) dyn
        else exists r, dereferenceJSONPointer (di_root dk) (u_frag refURI) = Ok r /\ t = fst r
    end.
Proof. exact resolve_remote_designates. Qed.
Print Assumptions C03_remote_designates.

(** ... and the invariant holds throughout Schema.Resolve: it holds of the empty state, every load
    keeps it, and when resolution succeeds every document held is lexical for its retrieval URI *)
Theorem C03_docs_lexical : forall re_ok loader rootDraft7 fuel root base st' k,
  (forall u s, call_loader loader u = Some s -> wfs s) -> wfs root ->
  resolve_doc re_ok loader rootDraft7 fuel (mkR [] [] [] []) root base = Ok (st', k) ->
  INV st' /\ k = 0%nat /\ exists d0, nth_error (r_docs st') 0 = Some d0 /\ di_root d0 = root /\ DocLex d0 base.
Proof. exact resolve_docs_lexical. Qed.
Print Assumptions C03_docs_lexical.

(** when Resolve succeeds every reference of every document it holds has been resolved: the
    Resolved records a target for each $ref and each $dynamicRef, and the target is a subschema of
    one of the documents held (a node of the Resolved) - never a dangling or foreign value *)
Theorem C03_every_ref_resolved : forall re_ok fuel root baseURI loader e calls,
  wfs root -> (forall u s, call_loader loader u = Some s -> wfs s) ->
  Resolve re_ok fuel root baseURI loader = Ok (e, calls) ->
  forall l s, node_at e l = Some s ->
    exists i, info_at e l = Some i /\
      (nonempty (s_ref s) = true -> exists t c, ri_ref i = Some t /\ node_at e t = Some c) /\
      (nonempty (s_dynamicRef s) = true -> exists t c, ri_dynref i = Some t /\ node_at e t = Some c).
Proof.
  intros re_ok fuel root baseURI loader e calls Hw Hl H l s Hs.
  destruct (Resolve_EnvOK re_ok fuel root baseURI loader e calls Hw Hl H) as [Hok _].
  destruct (ok_info e Hok l s Hs) as (i & Hi & _ & Hr & Hd). exists i. split; [exact Hi|]. split.
  - intros Hne. destruct (Hr Hne) as (t & Ht & [c Hc]). eauto.
  - intros Hne. destruct (Hd Hne) as (t & Ht & [c Hc]). eauto.
Qed.
Print Assumptions C03_every_ref_resolved.

(** non-vacuity / regression witnesses on the resolver model: a diamond of loader
    documents with an anchor fragment into a cached document (the former panic O-1), each
    document requested once *)
Example C03_diamond_example :
  let mk d := match JS.sch.Codec.unmarshal d with Ok s => s | _ => empty_schema end in
  let a := mk (DObj [ (lit "$id"%lit, DStr (lit "http://x/a"%lit));
                      (lit "properties"%lit, DObj [ (lit "p"%lit, DObj [ (lit "$ref"%lit, DStr (lit "c"%lit)) ]);
                                                     (lit "q"%lit, DObj [ (lit "$ref"%lit, DStr (lit "b"%lit)) ]) ]) ]) in
  let b := mk (DObj [ (lit "$ref"%lit, DStr (lit "c#foo"%lit)) ]) in
  let c := mk (DObj [ (lit "$anchor"%lit, DStr (lit "foo"%lit)); (lit "type"%lit, DStr (lit "string"%lit)) ]) in
  match JS.res.Resolve.Resolve (fun _ => true) 5 a [] (Some [ (lit "http://x/b"%lit, Some b); (lit "http://x/c"%lit, Some c) ]) with
  | Ok (_, calls) => calls = [lit "http://x/c"%lit; lit "http://x/b"%lit]
  | _ => False
  end.
Proof. vm_compute. reflexivity. Qed.
