(** C08 - The verdict does not depend on the Go representation of the instance. *)
From Coq Require Import List NArith ZArith QArith Bool.
From JS Require Import Str Lit Json Res GoValue Equal EqualFacts Hash Schema Env Ann Validate Spec RefineBase Refine Corollaries SpecPerm OrderFree.
Import ListNotations.

Theorem C08_representation : forall re_match hash n e g1 g2 b,
  gv_wf g1 = true -> gv_wf g2 = true -> den g1 = den g2 ->
  isValidSchemaVersion (e_version e) = true ->
  spec_valid re_match n e (den g1) = Some b ->
  Validate re_match hash n e g1 = Validate re_match hash n e g2.
Proof. exact Validate_representation. Qed.
Print Assumptions C08_representation.

(** more generally the verdict only depends on the instance as a JSON value: representations
    whose denotations are JSON-equal (numbers as rationals, objects as unordered sets of
    members) get the same verdict *)
Theorem C08_json_value : forall re_match hash n e g g' b,
  gv_wf g = true -> gv_wf g' = true -> jeq (den g) (den g') ->
  isValidSchemaVersion (e_version e) = true ->
  spec_valid re_match n e (den g) = Some b ->
  Validate re_match hash n e g = Validate re_match hash n e g'.
Proof. exact Validate_json_value. Qed.
Print Assumptions C08_json_value.

(** every representation gets the verdict of the canonical encoding/json decoding *)
Theorem C08_canonical : forall re_match hash n e g b,
  gv_wf g = true -> json_wf (den g) = true ->
  isValidSchemaVersion (e_version e) = true ->
  spec_valid re_match n e (den g) = Some b ->
  Validate re_match hash n e g = Validate re_match hash n e (canon (den g)).
Proof. exact Validate_canonical. Qed.
Print Assumptions C08_canonical.

Theorem C08_type : forall g, jsonType (strip g) = Some (json_type (den g)).
Proof. exact jsonType_den. Qed.
Print Assumptions C08_type.

Example C08_example :
  (* 1 as json.Number inside a pointer to a typed slice vs. the canonical []any{float64(1)} *)
  den (GInd (GArr [GJNum (1#1); GInd (GInt 2)])) = den (canon (JArr [JNum (1#1); JNum (2#1)])).
Proof. reflexivity. Qed.
