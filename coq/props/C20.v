(** C20 - CloneSchemas yields an equal and fully independent schema tree.
    Heap model: objects with an opaque payload (the non-schema fields, copied by value) and
    subschema pointers in field-table order.  That the package's field table lists exactly
    the subschema-typed fields of the Schema struct is the source-facts obligation
    [schema_fields_ok] (classes FSch / FSchs / FSchm), re-checked on every run. *)
From Coq Require Import List.
From JS Require Import Clone.
Import ListNotations.

(** the clone denotes the same tree as the original (hence marshals identically) *)
Theorem C20_equal : forall D K n (h : heap D K) a h' a',
  clone D K n h a = Some (h', a') -> forall m t, abs D K m h a = Some t -> abs D K m h' a' = Some t.
Proof. exact clone_abs. Qed.
Print Assumptions C20_equal.

(** every object reachable from the clone is newly allocated: nothing is shared with the
    original (or with anything that existed before), at any depth, under any keyword *)
Theorem C20_disjoint : forall D K n (h : heap D K) a h' a',
  clone D K n h a = Some (h', a') -> forall b, reach D K h' a' b -> length h <= b.
Proof. exact clone_fresh. Qed.
Print Assumptions C20_disjoint.

(** the original objects are untouched by cloning *)
Theorem C20_frame : forall D K n (h : heap D K) a h' a',
  clone D K n h a = Some (h', a') -> forall x nd, nth_error h x = Some nd -> nth_error h' x = Some nd.
Proof. exact clone_preserves. Qed.
Print Assumptions C20_frame.

(** assigning to any field of any Schema object of the clone (every one of them lives at a
    new address, by [C20_disjoint]) leaves every tree of the original heap unchanged *)
Theorem C20_mutate_clone : forall D K n (h : heap D K) a h' a',
  clone D K n h a = Some (h', a') ->
  forall b nd', length h <= b ->
  forall m x t, abs D K m h x = Some t -> abs D K m (upd D K h' b nd') x = Some t.
Proof. exact clone_mutate_clone. Qed.
Print Assumptions C20_mutate_clone.

(** assigning to any field of any Schema object that existed before the call (the whole
    original tree included) leaves the tree of the clone unchanged *)
Theorem C20_mutate_original : forall D K n (h : heap D K) a h' a',
  clone D K n h a = Some (h', a') ->
  forall b nd', b < length h ->
  forall m, abs D K m (upd D K h' b nd') a' = abs D K m h' a'.
Proof. exact clone_mutate_original. Qed.
Print Assumptions C20_mutate_original.

(** the same over histories: after ANY sequence of assignments to objects of the clone every
    tree of the original heap is as it was, and after ANY sequence of assignments to objects
    that existed before the call the tree of the clone is as it was *)
Theorem C20_history_clone : forall D K n (h : heap D K) a h' a',
  clone D K n h a = Some (h', a') ->
  forall ops, Forall (fun o => length h <= fst o) ops ->
  forall m x t, abs D K m h x = Some t -> abs D K m (upds D K h' ops) x = Some t.
Proof. exact clone_history_clone. Qed.
Print Assumptions C20_history_clone.

Theorem C20_history_original : forall D K n (h : heap D K) a h' a',
  clone D K n h a = Some (h', a') ->
  forall ops, Forall (fun o => fst o < length h) ops ->
  forall m, abs D K m (upds D K h' ops) a' = abs D K m h' a'.
Proof. exact clone_history_original. Qed.
Print Assumptions C20_history_original.

(** CloneSchemas succeeds on every finite tree: the hypotheses [clone .. = Some ..] of the
    theorems of this file are met by every tree-shaped input, to any depth *)
Theorem C20_total : forall D K m (h : heap D K) a t,
  abs D K m h a = Some t -> exists h' a', clone D K m h a = Some (h', a').
Proof. exact clone_total. Qed.
Print Assumptions C20_total.

(** checkStructure (model [check]: a walk with the set of objects seen so far, failing on an
    object met twice or a dangling child): after walking the original from any set of
    pre-existing objects, the same walk continues through the clone without error - so the
    original and the clone can both be placed under one parent that still resolves -
    whereas meeting the original a second time is rejected *)
Theorem C20_parent : forall D K n (h : heap D K) a h' a' m t seen s1,
  clone D K n h a = Some (h', a') -> abs D K m h a = Some t ->
  (forall x, In x seen -> x < length h) -> NoDup seen ->
  check D K m h seen a = Some s1 ->
  exists s2, check D K m h' s1 a' = Some s2 /\ NoDup s2 /\ In a s2 /\ In a' s2.
Proof. exact clone_parent. Qed.
Print Assumptions C20_parent.

(** literally the statement: when the original is a tree (the structure check accepts it),
    a new parent holding the original and the clone, under any two positions, is accepted *)
Theorem C20_common_parent : forall D K n (h : heap D K) a h' a' m t s1 d k1 k2,
  clone D K n h a = Some (h', a') -> abs D K m h a = Some t -> check D K m h [] a = Some s1 ->
  exists s, check D K (S m) (h' ++ [mkNode D K d [(k1, a); (k2, a')]]) [] (length h') = Some s.
Proof. exact clone_common_parent. Qed.
Print Assumptions C20_common_parent.

Theorem C20_sharing_rejected : forall D K n (h : heap D K) seen a,
  In a seen -> check D K n h seen a = None.
Proof. exact check_rejects_seen. Qed.
Print Assumptions C20_sharing_rejected.

Theorem C20_cycle_rejected : forall D K n (h : heap D K) seen a nd k c,
  nth_error h a = Some nd -> In (k, c) (hn_kids D K nd) -> reach D K h c a -> check D K n h seen a = None.
Proof. exact check_rejects_cycle. Qed.
Print Assumptions C20_cycle_rejected.

Example C20_example :
  (* a three-node tree: root -> [x -> leaf; y -> leaf'] ; the clone lives at fresh addresses 3..5 *)
  let h := [mkNode nat nat 10 [(0, 1); (1, 2)]; mkNode nat nat 11 []; mkNode nat nat 12 []] in
  match clone nat nat 5 h 0 with
  | Some (h', a') => a' = 5 /\ length h' = 6 /\ abs nat nat 5 h' a' = abs nat nat 5 h 0 /\ abs nat nat 5 h 0 <> None
  | None => False
  end.
Proof. vm_compute. repeat split. discriminate. Qed.

Example C20_mutate_example :
  (* scribbling over the original root after cloning: the clone still denotes the old tree *)
  let h := [mkNode nat nat 10 [(0, 1); (1, 2)]; mkNode nat nat 11 []; mkNode nat nat 12 []] in
  match clone nat nat 5 h 0 with
  | Some (h', a') =>
      abs nat nat 5 (upd nat nat h' 0 (mkNode nat nat 99 [])) a' = abs nat nat 5 h 0 /\
      abs nat nat 5 (upd nat nat h' 0 (mkNode nat nat 99 [])) 0 <> abs nat nat 5 h 0 /\
      abs nat nat 5 (upd nat nat h' a' (mkNode nat nat 99 [])) 0 = abs nat nat 5 h 0
  | None => False
  end.
Proof. vm_compute. repeat split. discriminate. Qed.

Example C20_parent_example :
  (* a parent holding the original and its clone passes the structure check; one holding the original twice does not *)
  let h := [mkNode nat nat 10 [(0, 1); (1, 2)]; mkNode nat nat 11 []; mkNode nat nat 12 []] in
  match clone nat nat 5 h 0 with
  | Some (h', a') =>
      check nat nat 6 (h' ++ [mkNode nat nat 0 [(0, 0); (1, a')]]) [] (length h') <> None /\
      check nat nat 6 (h' ++ [mkNode nat nat 0 [(0, 0); (1, 0)]]) [] (length h') = None
  | None => False
  end.
Proof. vm_compute. split; [discriminate|reflexivity]. Qed.
