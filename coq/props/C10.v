(** C10 - Every entry point returns a value or an error, never a panic or a hang.  (partial)
    In the model a Go panic is the result [Panic] and unbounded recursion is [OutOfFuel].
    Proved here: Unmarshal is total (value or error, budget always sufficient); Resolve never
    panics and, with a budget above the number of documents the loader can return, always
    returns (a Resolved or an error) - for every schema tree, base URI, regexp oracle and
    loader table, failing and cyclic loaders included; Validate returns Ok or Err whenever the
    specification defines a verdict (resolved environment, recursion through
    instance-descending keywords within the fuel).
    ForType (the model of For) has no panicking branch and returns for every type nested less
    deeply than its budget.
    The remaining entry points and the malformed / adversarial inputs (arbitrary bytes, Schema
    graphs with nil, shared and cyclic pointers, failing loaders, odd Go values, recursive
    types) are decided by the correspondence families: every family's observation records
    panic / hang per call and must agree with the model, and family [robust] has the law
    "every call returns".  gen/ObPanics.v accounts for every explicit panic/assert site of
    the sources. *)
From Coq Require Import List NArith ZArith QArith Bool.
From JS Require Clone.
From JS Require Import Str Lit Json Res GoValue Hash Schema CodecBase Codec UnmarshalTotal Env Ann Validate Spec Refine Corollaries Defaults Uri Resolve ResolveTotal GoType Infer InferTotal NoPanic ResolveEnvOK Terminates.
Import ListNotations.

Theorem C10_validate_returns : forall re_match hash n e inst b,
  gv_wf inst = true -> isValidSchemaVersion (e_version e) = true ->
  spec_valid re_match n e (den inst) = Some b ->
  Validate re_match hash n e inst = Ok tt \/ Validate re_match hash n e inst = Err.
Proof.
  intros re_match hash n e inst b Hw Hv Hs.
  rewrite (Validate_spec re_match hash n e inst b Hw Hv Hs). destruct b; [left|right]; reflexivity.
Qed.
Print Assumptions C10_validate_returns.

(** Validate never panics on what Resolve returned: for every schema tree and loader table (maps
    without duplicate keys), base URI, regexp oracle, hash function, instance and recursion budget.
    The Resolved satisfies [EnvOK] ([C10_resolved_env_ok]: the node table is closed under the
    children of a schema; every node has an info, its base is a node and so are the targets of its
    anchors; every $ref / $dynamicRef holder has its resolved target recorded and the target is a
    node), and over such an environment the evaluator takes none of its [Panic] branches
    ([C10_evaluator_no_panic]: the lookups of resolvedInfos, of referenced schemas, of the dynamic
    scope).  What remains possible is an error, a verdict, or - for schemas that recurse without
    descending into the instance, which the property excludes - an exhausted budget. *)
Theorem C10_validate_no_panic : forall re_ok re_match hash fuel root baseURI loader e calls vfuel inst,
  wfs root -> (forall u s, call_loader loader u = Some s -> wfs s) ->
  Resolve re_ok fuel root baseURI loader = Ok (e, calls) ->
  Validate re_match hash vfuel e inst <> Panic.
Proof. exact Resolve_Validate_no_panic. Qed.
Print Assumptions C10_validate_no_panic.

Theorem C10_resolved_env_ok : forall re_ok fuel root baseURI loader e calls,
  wfs root -> (forall u s, call_loader loader u = Some s -> wfs s) ->
  Resolve re_ok fuel root baseURI loader = Ok (e, calls) -> EnvOK e /\ isNode e (0%nat, []).
Proof. exact Resolve_EnvOK. Qed.
Print Assumptions C10_resolved_env_ok.

Theorem C10_evaluator_no_panic : forall re_match hash e, EnvOK e ->
  forall fuel stack inst l s, Node e l s -> Forall (isNode e) stack -> validate re_match hash fuel e stack inst l s <> Panic.
Proof. exact validate_no_panic. Qed.
Print Assumptions C10_evaluator_no_panic.

(** ... and it does not recurse without bound, "provided schema recursion passes through an
    instance-descending keyword": when the in-place calls of the resolved schema - the targets of
    $ref and $dynamicRef (every anchor a dynamic reference can reach) and the subschemas under allOf,
    anyOf, oneOf, not, if / then / else, dependentSchemas / dependencies - strictly decrease a rank
    ([RankOK]; [rank_okb] decides it for a concrete Resolved), a budget of
    (size of the instance) * (R + 1) + R + 1 suffices for every instance: Validate returns a
    verdict or an error, never a panic, never an exhausted budget. *)
Theorem C10_validate_terminates : forall re_match hash e, EnvOK e -> forall rk R, RankOK e rk R ->
  forall fuel inst, (gsize inst * (R + 1) + R < fuel)%nat -> Validate re_match hash fuel e inst <> OutOfFuel.
Proof. exact Validate_terminates. Qed.
Print Assumptions C10_validate_terminates.

Theorem C10_validate_value_or_error : forall re_ok re_match hash fuel root baseURI loader e calls rk R vfuel inst,
  wfs root -> (forall u s, call_loader loader u = Some s -> wfs s) ->
  Resolve re_ok fuel root baseURI loader = Ok (e, calls) ->
  RankOK e rk R -> (gsize inst * (R + 1) + R < vfuel)%nat ->
  Validate re_match hash vfuel e inst = Ok tt \/ Validate re_match hash vfuel e inst = Err.
Proof.
  intros re_ok re_match hash fuel root baseURI loader e calls rk R vfuel inst Hw Hl H Hrk Hf.
  destruct (Resolve_EnvOK re_ok fuel root baseURI loader e calls Hw Hl H) as [Hok Hroot].
  pose proof (Validate_no_panic re_match hash e Hok vfuel inst Hroot) as Hp.
  pose proof (Validate_terminates re_match hash e Hok rk R Hrk vfuel inst Hf) as Ht.
  destruct (Validate re_match hash vfuel e inst) as [[]| | |]; auto; contradiction.
Qed.
Print Assumptions C10_validate_value_or_error.

Theorem C10_rank_check_sound : forall e rk R, rank_okb e rk R = true -> RankOK e rk R.
Proof. exact rank_okb_sound. Qed.
Print Assumptions C10_rank_check_sound.

(** non-vacuity: the recursive schema {"properties": {"next": {"$ref": "#"}}, "required": ["v"]} -
    recursion through "properties", an instance-descending keyword - has a rank (the root 0, the
    reference holder 1), and so terminates on every instance with a budget of 2 * size + 2 *)
Example C10_rank_example :
  let next := JS.sch.Schema.set_ref (lit "#"%lit) empty_schema in
  let root := set_required (Some [lit "v"%lit]) (set_properties (Some [(lit "next"%lit, next)]) empty_schema) in
  match Resolve (fun _ => true) 2 root [] None with
  | Ok (e, _) => rank_okb e (fun l => match snd l with [] => 0%nat | _ => 1%nat end) 1 = true
  | _ => False
  end.
Proof. vm_compute. reflexivity. Qed.

(** Unmarshal: on every document the codec returns a schema or an error - the model has no
    Panic result here and the recursion budget (the document's size) always suffices *)
Theorem C10_unmarshal_total : forall d, (exists s, unmarshal d = Ok s) \/ unmarshal d = Err.
Proof. exact unmarshal_total. Qed.
Print Assumptions C10_unmarshal_total.

(** ApplyDefaults is a total function of schema and instance (its model has no error result) *)
Theorem C10_apply_defaults_total : forall s j, exists j', ApplyDefaults s j = j'.
Proof. intros s j. eexists. reflexivity. Qed.

(** an unsupported $schema is an error, not a panic *)
Theorem C10_validate_refuses : forall re_match hash n e inst,
  isValidSchemaVersion (e_version e) = false -> Validate re_match hash n e inst = Err.
Proof. exact Validate_refuses. Qed.
Print Assumptions C10_validate_refuses.

(** Resolve: no internal lookup of the resolver (bases, resource URIs, the document cache, the
    location tables) can fail - the model's Panic branches are unreachable.  [wfs]: maps have
    no duplicate keys, which every Go value satisfies. *)
Theorem C10_resolve_no_panic : forall re_ok fuel root baseURI loader,
  wfs root -> (forall u s, call_loader loader u = Some s -> wfs s) ->
  Resolve re_ok fuel root baseURI loader <> Panic.
Proof. exact Resolve_no_panic. Qed.
Print Assumptions C10_resolve_no_panic.

(** ... and it never hangs: a loaded document is cached before its references are followed,
    so nested loads are at most as deep as the loader's table is long - self-referential and
    mutually referential loader documents included *)
Theorem C10_resolve_returns : forall re_ok fuel root baseURI loader,
  wfs root -> (forall u s, call_loader loader u = Some s -> wfs s) ->
  (length (loadable loader) < fuel)%nat ->
  (exists e calls, Resolve re_ok fuel root baseURI loader = Ok (e, calls)) \/ Resolve re_ok fuel root baseURI loader = Err.
Proof. exact Resolve_returns. Qed.
Print Assumptions C10_resolve_returns.

(** non-vacuity: two loader documents that refer to each other and to themselves *)
Example C10_resolve_cycle_example :
  let mk d := match JS.sch.Codec.unmarshal d with Ok s => s | _ => empty_schema end in
  let a := mk (DObj [ (lit "$ref"%lit, DStr (lit "http://x/b"%lit)) ]) in
  let b := mk (DObj [ (lit "properties"%lit, DObj [ (lit "p"%lit, DObj [ (lit "$ref"%lit, DStr (lit "http://x/c"%lit)) ]);
                                                     (lit "q"%lit, DObj [ (lit "$ref"%lit, DStr (lit "http://x/b"%lit)) ]) ]) ]) in
  let c := mk (DObj [ (lit "items"%lit, DObj [ (lit "$ref"%lit, DStr (lit "http://x/b#/properties/p"%lit)) ]) ]) in
  let ld := Some [ (lit "http://x/b"%lit, Some b); (lit "http://x/c"%lit, Some c) ] in
  wfsb a = true /\ wfsb b = true /\ wfsb c = true /\
  match JS.res.Resolve.Resolve (fun _ => true) 3 a [] ld with Ok (_, calls) => length calls = 2%nat | _ => False end.
Proof. vm_compute. repeat split. Qed.

(** For / ForType: a schema, nothing (IgnoreInvalidTypes) or an error - for every type nested
    less than 64 deep (the model's recursion budget; the package recurses on the finite type) *)
Theorem C10_fortype_returns : forall o t,
  (gdepth t < 64)%nat -> (exists r, ForType o t = Ok r) \/ ForType o t = Err.
Proof. exact ForType_returns. Qed.
Print Assumptions C10_fortype_returns.

(** Resolve on pointer graphs (a *Schema value need not be a tree): the structure check
    (heap model, heap/Clone.v [check]: a walk carrying the set of objects seen) ends with an
    error as soon as an object is met a second time - sharing and cycles alike - and what it
    accepts is a tree of pairwise distinct allocated objects, so every later traversal of
    the resolver is structural; CloneSchemas returns on every finite tree *)
Theorem C10_structure_rejects_revisit : forall D K n (h : JS.heap.Clone.heap D K) seen a,
  In a seen -> JS.heap.Clone.check D K n h seen a = None.
Proof. exact JS.heap.Clone.check_rejects_seen. Qed.
Print Assumptions C10_structure_rejects_revisit.

Theorem C10_structure_accepts_trees : forall D K n (h : JS.heap.Clone.heap D K) a s,
  JS.heap.Clone.check D K n h [] a = Some s ->
  NoDup s /\ (forall x, In x s -> (x < length h)%nat) /\ In a s.
Proof. exact JS.heap.Clone.check_accepts_tree. Qed.
Print Assumptions C10_structure_accepts_trees.

Theorem C10_clone_returns : forall D K m (h : JS.heap.Clone.heap D K) a t,
  JS.heap.Clone.abs D K m h a = Some t -> exists h' a', JS.heap.Clone.clone D K m h a = Some (h', a').
Proof. exact JS.heap.Clone.clone_total. Qed.
Print Assumptions C10_clone_returns.

(** cycles: an object that reaches itself through one of its children is never accepted,
    whatever the recursion budget and the set of objects seen so far *)
Theorem C10_structure_rejects_cycle : forall D K n (h : JS.heap.Clone.heap D K) seen a nd k c,
  nth_error h a = Some nd -> In (k, c) (JS.heap.Clone.hn_kids D K nd) -> JS.heap.Clone.reach D K h c a ->
  JS.heap.Clone.check D K n h seen a = None.
Proof. exact JS.heap.Clone.check_rejects_cycle. Qed.
Print Assumptions C10_structure_rejects_cycle.

Example C10_structure_cycle_example :
  (* 0 -> 1 -> 0 *)
  let h := [JS.heap.Clone.mkNode nat nat 0%nat [(0%nat, 1%nat)]; JS.heap.Clone.mkNode nat nat 1%nat [(0%nat, 0%nat)]] in
  JS.heap.Clone.check nat nat 10%nat h [] 0%nat = None /\ JS.heap.Clone.reach nat nat h 1%nat 0%nat.
Proof.
  split; [vm_compute; reflexivity|].
  eapply JS.heap.Clone.reach_step; [reflexivity|left; reflexivity|apply JS.heap.Clone.reach_refl].
Qed.
