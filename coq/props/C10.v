(** C10 - Every entry point returns a value or an error, never a panic or a hang.  (partial)
    In the model a Go panic is the result [Panic] and unbounded recursion is [OutOfFuel].
    Proved here: Validate returns Ok or Err whenever the specification defines a verdict
    (resolved environment, recursion through instance-descending keywords within the fuel).
    The remaining entry points and the malformed / adversarial inputs (arbitrary bytes, Schema
    graphs with nil, shared and cyclic pointers, failing loaders, odd Go values, recursive
    types) are decided by the correspondence families: every family's observation records
    panic / hang per call and must agree with the model, and family [robust] has the law
    "every call returns".  gen/ObPanics.v accounts for every explicit panic/assert site of
    the sources. *)
From Coq Require Import List NArith ZArith QArith Bool.
From JS Require Import Str Lit Json Res GoValue Hash Schema Env Ann Validate Spec Refine Corollaries.
Import ListNotations.

Theorem C10_validate_returns : forall re_match hash n e inst b,
  gv_wf inst = true -> isValidSchemaVersion (e_version e) = true ->
  spec_valid re_match n e (den inst) = Some b ->
  Validate re_match hash n e inst = Ok tt \/ Validate re_match hash n e inst = Err.
Proof.
  intros re_match hash n e inst b Hw Hv Hs.
  rewrite (Validate_spec re_match hash n e inst b Hw Hv Hs). destruct b; [left|right]; reflexivity.
Qed.
Print Assumptions C10_validate_returns.

(** an unsupported $schema is an error, not a panic *)
Theorem C10_validate_refuses : forall re_match hash n e inst,
  isValidSchemaVersion (e_version e) = false -> Validate re_match hash n e inst = Err.
Proof. exact Validate_refuses. Qed.
Print Assumptions C10_validate_refuses.
