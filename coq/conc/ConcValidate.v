(** C13 instantiated: k goroutines, each making any number of Validate calls on one shared
    Resolved (the model's [env]); under every schedule each call returns what it returns
    when made alone. *)
From Coq Require Import List Arith Lia Bool ZArith.
From JS Require Import Str Json Res GoValue Hash Schema Env Ann Validate Conc ConcFacts.
Import ListNotations.

Section Inst.
  Variable re_match : str -> str -> bool.
  Variable hash : list tok -> Z.
  Variable fuel : nat.

  (* a goroutine: the instances still to validate, the results so far *)
  Definition gor : Type := (list gv * list (res unit))%type.
  Definition vprog (e : env) (l : gor) : req unit unit gor :=
    match fst l with
    | [] => RLocal _ _ _ l
    | i :: rest => RLocal _ _ _ (rest, snd l ++ [Validate re_match hash fuel e i])
    end.
  Definition no_memo (e : env) (k : unit) : unit := tt.
  Definition ueqb (a b : unit) : bool := true.

  Lemma iter_S_r {A} (g : A -> A) : forall n x, Nat.iter (S n) g x = Nat.iter n g (g x).
  Proof.
    induction n as [|n IH]; intros x; [reflexivity|].
    change (Nat.iter (S (S n)) g x) with (g (Nat.iter (S n) g x)). rewrite IH. reflexivity.
  Qed.

  Lemma iter_calls e : forall n insts acc, length insts <= n ->
    Nat.iter n (pstep env unit unit gor no_memo vprog e) (insts, acc)
    = ([], acc ++ map (Validate re_match hash fuel e) insts).
  Proof.
    induction n as [|n IH]; intros insts acc Hn.
    - destruct insts; [|cbn in Hn; lia]. cbn. now rewrite app_nil_r.
    - rewrite iter_S_r. destruct insts as [|i rest].
      + unfold pstep at 2. cbn [vprog fst snd]. rewrite IH by (cbn; lia). reflexivity.
      + unfold pstep at 2. cbn [vprog fst snd]. rewrite IH by (cbn in Hn; lia).
        cbn [map]. now rewrite <- app_assoc.
  Qed.

  Theorem Validate_concurrent e (calls : list (list gv)) sigma :
    (forall t insts, nth_error calls t = Some insts -> length insts <= count t sigma) ->
    let g := run env unit unit gor ueqb no_memo vprog e sigma (mkG _ _ _ [] (map (fun insts => (insts, [])) calls)) in
    forall t insts, nth_error calls t = Some insts ->
      nth_error (g_loc _ _ _ g) t = Some ([], map (Validate re_match hash fuel e) insts).
  Proof.
    intros Hfair g t insts Ht.
    assert (Hm0 : memo_ok env unit unit ueqb no_memo e []) by (intros k v [=]).
    destruct (schedule_independent env unit unit gor ueqb (fun a b _ => match a, b with tt, tt => eq_refl end)
                no_memo vprog e [] (map (fun insts => (insts, [])) calls) sigma Hm0) as (_ & _ & H).
    specialize (H t (insts, [])).
    rewrite iter_calls in H by (now apply Hfair). cbn [app] in H.
    apply H. rewrite nth_error_map, Ht. reflexivity.
  Qed.
End Inst.
