(** C13: goroutines that share only state they read, plus memo tables whose entries are a
    function of the key, compute what they would compute alone - under every schedule.

    A goroutine is a deterministic machine over its own state [L].  One step either is
    local (it may read the shared read-only value [ro], e.g. a Resolved with its side
    tables, a Schema tree, a ForOptions) or consults a process-wide memo table
    (structProperties, jsonNamesMap: sync.Map from reflect.Type) and continues with the
    value found; on a miss it computes the value itself - a function [f] of [ro] and the
    key - and may or may not get it stored (a racing Store can lose against another one,
    which holds the same value).  A schedule is any list of (goroutine, stored?) pairs. *)
From Coq Require Import List Arith Lia Bool.
Import ListNotations.

Section Conc.
  Variables (R K V L : Type).
  Variable K_eqb : K -> K -> bool.
  Variable f : R -> K -> V.

  Inductive req := RLocal (l' : L) | RGet (k : K) (cont : V -> L).
  Variable prog : R -> L -> req.

  Definition memo := list (K * V).
  Fixpoint mget (m : memo) (k : K) : option V :=
    match m with [] => None | (k', v) :: r => if K_eqb k k' then Some v else mget r k end.

  Record gstate := mkG { g_memo : memo; g_loc : list L }.

  Definition upd (ls : list L) (t : nat) (l : L) : list L := firstn t ls ++ l :: skipn (S t) ls.

  Definition cstep (ro : R) (g : gstate) (ev : nat * bool) : gstate :=
    match nth_error (g_loc g) (fst ev) with
    | None => g
    | Some l =>
        match prog ro l with
        | RLocal l' => mkG (g_memo g) (upd (g_loc g) (fst ev) l')
        | RGet k cont =>
            match mget (g_memo g) k with
            | Some v => mkG (g_memo g) (upd (g_loc g) (fst ev) (cont v))
            | None => mkG (if snd ev then (k, f ro k) :: g_memo g else g_memo g)
                          (upd (g_loc g) (fst ev) (cont (f ro k)))
            end
        end
    end.

  (** the same goroutine running alone, with a memo that always answers *)
  Definition pstep (ro : R) (l : L) : L :=
    match prog ro l with RLocal l' => l' | RGet k cont => cont (f ro k) end.

  Definition memo_ok (ro : R) (m : memo) : Prop := forall k v, mget m k = Some v -> v = f ro k.

  Definition count (t : nat) (sigma : list (nat * bool)) : nat :=
    length (filter (fun e => Nat.eqb (fst e) t) sigma).

  Definition run (ro : R) (sigma : list (nat * bool)) (g : gstate) : gstate := fold_left (cstep ro) sigma g.
End Conc.
