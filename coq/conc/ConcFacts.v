From Coq Require Import List Arith Lia Bool.
From JS Require Import Conc.
Import ListNotations.

Section Facts.
  Variables (R K V L : Type).
  Variable K_eqb : K -> K -> bool.
  Hypothesis K_eqb_sound : forall a b, K_eqb a b = true -> a = b.
  Variable f : R -> K -> V.
  Variable prog : R -> L -> req K V L.

  Notation cstep := (cstep R K V L K_eqb f prog).
  Notation pstep := (pstep R K V L f prog).
  Notation run := (run R K V L K_eqb f prog).
  Notation memo_ok := (memo_ok R K V K_eqb f).

  Lemma nth_error_firstn_lt {A} (l : list A) : forall n i, i < n -> nth_error (firstn n l) i = nth_error l i.
  Proof.
    induction l as [|x r IH]; intros [|n] [|i] H; cbn; try reflexivity; try lia.
    apply IH. lia.
  Qed.

  Lemma nth_error_skipn_add {A} (l : list A) : forall n i, nth_error (skipn n l) i = nth_error l (n + i).
  Proof.
    induction l as [|x r IH]; intros [|n] i; cbn; try reflexivity.
    - now destruct i.
    - apply IH.
  Qed.

  Lemma nth_error_extl {A} : forall (l l' : list A), (forall n, nth_error l n = nth_error l' n) -> l = l'.
  Proof.
    induction l as [|x r IH]; intros [|y r'] H; [reflexivity|specialize (H 0); discriminate|specialize (H 0); discriminate|].
    pose proof (H 0) as H0. cbn in H0. injection H0 as <-. f_equal. apply IH. intros n. exact (H (S n)).
  Qed.

  Lemma upd_length (ls : list L) t l x : nth_error ls t = Some x -> length (upd L ls t l) = length ls.
  Proof.
    intros H. unfold upd. pose proof (nth_error_Some ls t) as Hs.
    assert (t < length ls) by (apply Hs; congruence).
    rewrite app_length, firstn_length. cbn [length]. rewrite skipn_length. lia.
  Qed.

  Lemma upd_same (ls : list L) t l x : nth_error ls t = Some x -> nth_error (upd L ls t l) t = Some l.
  Proof.
    intros H. unfold upd. pose proof (nth_error_Some ls t) as Hs.
    assert (Hlt : t < length ls) by (apply Hs; congruence).
    rewrite nth_error_app2; rewrite firstn_length, Nat.min_l by lia; [|lia].
    now rewrite Nat.sub_diag.
  Qed.

  Lemma upd_other (ls : list L) t t' l x : nth_error ls t = Some x -> t' <> t ->
    nth_error (upd L ls t l) t' = nth_error ls t'.
  Proof.
    intros H Hne. unfold upd. pose proof (nth_error_Some ls t) as Hs.
    assert (Hlt : t < length ls) by (apply Hs; congruence).
    destruct (Nat.lt_ge_cases t' t) as [Hl|Hg].
    - rewrite nth_error_app1 by (rewrite firstn_length; lia).
      now rewrite nth_error_firstn_lt by lia.
    - rewrite nth_error_app2 by (rewrite firstn_length; lia).
      rewrite firstn_length, Nat.min_l by lia.
      destruct (t' - t) as [|d] eqn:Ed; [lia|]. cbn [nth_error].
      rewrite nth_error_skipn_add. f_equal. lia.
  Qed.

  Lemma count_app t s1 s2 : count t (s1 ++ s2) = count t s1 + count t s2.
  Proof. unfold count. now rewrite filter_app, app_length. Qed.

  Lemma memo_ok_cons ro m k : memo_ok ro m -> memo_ok ro ((k, f ro k) :: m).
  Proof.
    intros H k' v. cbn [mget]. destruct (K_eqb k' k) eqn:E; [|apply H].
    apply K_eqb_sound in E. subst. now intros [= <-].
  Qed.

  (** the invariant of one step: the table only ever holds f's values, nobody's state is
      touched but the stepping goroutine's, and that one moves as it would alone *)
  Lemma cstep_inv ro g t b :
    memo_ok ro (g_memo _ _ _ g) ->
    let g' := cstep ro g (t, b) in
    memo_ok ro (g_memo _ _ _ g') /\
    length (g_loc _ _ _ g') = length (g_loc _ _ _ g) /\
    (forall t', t' <> t -> nth_error (g_loc _ _ _ g') t' = nth_error (g_loc _ _ _ g) t') /\
    (forall l, nth_error (g_loc _ _ _ g) t = Some l -> nth_error (g_loc _ _ _ g') t = Some (pstep ro l)).
  Proof.
    intros Hm. unfold Conc.cstep. cbn [fst snd].
    destruct (nth_error (g_loc _ _ _ g) t) as [l|] eqn:El.
    2:{ cbn. repeat split; auto. intros l [=]. }
    unfold Conc.pstep. destruct (prog ro l) as [l'|k cont] eqn:Ep.
    - cbn [g_memo g_loc]. repeat split; auto.
      + eapply upd_length; eauto.
      + intros t' Hne. eapply upd_other; eauto.
      + intros l0 [= <-]. rewrite Ep. eapply upd_same; eauto.
    - destruct (mget _ _ _ (g_memo _ _ _ g) k) as [v|] eqn:Eg; cbn [g_memo g_loc].
      + repeat split; auto.
        * eapply upd_length; eauto.
        * intros t' Hne. eapply upd_other; eauto.
        * intros l0 [= <-]. rewrite Ep. rewrite (Hm k v Eg). eapply upd_same; eauto.
      + repeat split.
        * destruct b; [now apply memo_ok_cons|exact Hm].
        * eapply upd_length; eauto.
        * intros t' Hne. eapply upd_other; eauto.
        * intros l0 [= <-]. rewrite Ep. eapply upd_same; eauto.
  Qed.

  (** C13: under every schedule, starting from any table that holds only f's values (a cold
      or a warm process-wide cache), every goroutine ends where it would have ended running
      alone for as many steps as the schedule gave it; the table still holds only f's values *)
  Theorem schedule_independent ro m0 init sigma :
    memo_ok ro m0 ->
    let g := run ro sigma (mkG _ _ _ m0 init) in
    memo_ok ro (g_memo _ _ _ g) /\
    length (g_loc _ _ _ g) = length init /\
    forall t l0, nth_error init t = Some l0 ->
                 nth_error (g_loc _ _ _ g) t = Some (Nat.iter (count t sigma) (pstep ro) l0).
  Proof.
    intros Hm0. induction sigma as [|[t b] sigma IH] using rev_ind.
    - cbn. repeat split; auto.
    - unfold Conc.run in *. rewrite fold_left_app. cbn [fold_left].
      destruct IH as (IHm & IHl & IHt).
      destruct (cstep_inv ro _ t b IHm) as (Hm' & Hl' & Ho & Hs).
      repeat split.
      + exact Hm'.
      + now rewrite Hl'.
      + intros t' l0 Hi. rewrite count_app. unfold count at 2. cbn [filter fst].
        destruct (Nat.eqb_spec t t') as [->|Hne].
        * cbn [length]. rewrite Nat.add_1_r. cbn [Nat.iter]. apply Hs. now apply IHt.
        * cbn [length]. rewrite Nat.add_0_r. rewrite Ho by congruence. now apply IHt.
  Qed.

  (** two schedules that give each goroutine as many steps leave every goroutine in the same
      state - in particular any interleaving and the sequential execution *)
  Corollary schedules_agree ro m0 m0' init s1 s2 :
    memo_ok ro m0 -> memo_ok ro m0' -> (forall t, count t s1 = count t s2) ->
    g_loc _ _ _ (run ro s1 (mkG _ _ _ m0 init)) = g_loc _ _ _ (run ro s2 (mkG _ _ _ m0' init)).
  Proof.
    intros H1 H2 Hc.
    destruct (schedule_independent ro m0 init s1 H1) as (_ & Hl1 & Ht1).
    destruct (schedule_independent ro m0' init s2 H2) as (_ & Hl2 & Ht2).
    apply nth_error_extl. intros t.
    destruct (nth_error init t) as [l0|] eqn:Ei.
    - rewrite (Ht1 t l0 Ei), (Ht2 t l0 Ei), Hc. reflexivity.
    - assert (length init <= t) by now apply nth_error_None.
      transitivity (@None L); [|symmetry]; apply nth_error_None; lia.
  Qed.
End Facts.
