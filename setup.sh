#!/bin/sh
# Builds the framework from files on disk only (offline): Go harness, source facts,
# the Coq development from clean (full .vo build), extraction, the OCaml model runner.
set -e
cd "$(dirname "$0")"
export GOFLAGS=-mod=mod GOPROXY=off GOSUMDB=off GOTOOLCHAIN=local
mkdir -p .work evidence
# forbidden tokens: no axioms, no admits, no disabled checks anywhere in the development
if grep -rnE '\b(Admitted|admit|Axiom|Parameter|Conjecture|Admit Obligations)\b|Unset Guard|bypass_check|type-in-type|impredicative-set' coq --include='*.v' | grep -v '^coq/gen/SourceFacts.v'; then
  echo "forbidden token in the Coq development" >&2; exit 1
fi
python3 tools/gen_schema.py coq/sch/Schema.v coq/sch/ChildFacts.v coq/sch/SchemaRel.v
python3 tools/gen_codec.py coq/sch/Codec.v
python3 tools/gen_ocaml.py ocaml/schema_conv.ml
python3 tools/gen_zoo.py harness/zoo_gen.go
cp /repo/go.sum harness/go.sum
(cd harness && go build -tags verif -o ../.work/implrun .)
.work/implrun srcfacts 0 0 .work/srcfacts
cmp -s .work/srcfacts/SourceFacts.v coq/gen/SourceFacts.v || cp .work/srcfacts/SourceFacts.v coq/gen/SourceFacts.v
cd coq
coq_makefile -f _CoqProject -o Makefile > /dev/null
make clean > /dev/null 2>&1 || true
timeout 7000 make -j16
cd ../ocaml
./build.sh
echo "setup done"
