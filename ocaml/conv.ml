(* conversions between OCaml values and the extracted Coq types *)
module M = Model
open Sexp

let rec pos_of_int (i : int) : M.positive =
  if i <= 1 then M.XH else if i land 1 = 1 then M.XI (pos_of_int (i lsr 1)) else M.XO (pos_of_int (i lsr 1))
let n_of_int (i : int) : M.n = if i = 0 then M.N0 else M.Npos (pos_of_int i)
let rec nat_of_int (i : int) : M.nat = if i <= 0 then M.O else M.S (nat_of_int (i - 1))
let rec int_of_nat = function M.O -> 0 | M.S n -> 1 + int_of_nat n
let rec int_of_pos = function M.XH -> 1 | M.XO p -> 2 * int_of_pos p | M.XI p -> 2 * int_of_pos p + 1
let int_of_n = function M.N0 -> 0 | M.Npos p -> int_of_pos p
let z_of_int (i : int) : M.z = if i = 0 then M.Z0 else if i > 0 then M.Zpos (pos_of_int i) else M.Zneg (pos_of_int (-i))

(* arbitrary-precision decimal -> Coq Z, using the extracted arithmetic *)
let ten = z_of_int 10
let z_of_string (s : string) : M.z =
  let neg = String.length s > 0 && s.[0] = '-' in
  let st = if neg || (String.length s > 0 && s.[0] = '+') then 1 else 0 in
  let acc = ref M.Z0 in
  for i = st to String.length s - 1 do
    acc := M.Z.add (M.Z.mul !acc ten) (z_of_int (Char.code s.[i] - 48))
  done;
  if neg then M.Z.opp !acc else !acc
let pos_of_z = function M.Zpos p -> p | _ -> failwith "positive expected"

let rec string_of_pos_dec (p : M.positive) : string =
  (* only used for printing small numbers *)
  string_of_int (int_of_pos p)

let str_of_sexp (x : t) : M.str = List.map (fun a -> n_of_int (int_of_string (atom a))) (list x)
let str_of_string (s : string) : M.str = List.init (String.length s) (fun i -> n_of_int (Char.code s.[i]))
let ints_of_str (s : M.str) : string = String.concat "." (List.map (fun c -> string_of_int (int_of_n c)) s)

let q_of (num : t) (den : t) : M.q = { M.qnum = z_of_string (atom num); qden = pos_of_z (z_of_string (atom den)) }

let rec jdoc_of_sexp (x : t) : M.jdoc =
  match tagged x with
  | "null", [] -> M.DNull
  | "t", [] -> M.DBool true
  | "f", [] -> M.DBool false
  | "n", [A form; num; den] ->
      M.DNum ((match form with "i" -> M.NFInt | "f" -> M.NFFrac | "e" -> M.NFExp | _ -> failwith "numform"), q_of num den)
  | "s", cs -> M.DStr (List.map (fun a -> n_of_int (int_of_string (atom a))) cs)
  | "a", items -> M.DArr (List.map jdoc_of_sexp items)
  | "o", members -> M.DObj (List.map (fun m -> match list m with [k; v] -> (str_of_sexp k, jdoc_of_sexp v) | _ -> failwith "member") members)
  | t, _ -> failwith ("jdoc tag " ^ t)

let rec gv_of_sexp (x : t) : M.gv =
  match tagged x with
  | "nil", [] -> M.GNil
  | "b", [A "1"] -> M.GBool true
  | "b", [A "0"] -> M.GBool false
  | "i", [z] -> M.GInt (z_of_string (atom z))
  | "fl", [num; den] -> M.GFloat (q_of num den)
  | "jn", [num; den] -> M.GJNum (q_of num den)
  | "str", cs -> M.GStr (List.map (fun a -> n_of_int (int_of_string (atom a))) cs)
  | "arr", items -> M.GArr (List.map gv_of_sexp items)
  | "map", members -> M.GMap (List.map (fun m -> match list m with [k; v] -> (str_of_sexp k, gv_of_sexp v) | _ -> failwith "member") members)
  | "ind", [v] -> M.GInd (gv_of_sexp v)
  | t, _ -> failwith ("gv tag " ^ t)

(* canonical printing of documents, for observations: numbers by value only *)
let rec z_to_string (z : M.z) : string =
  (* decimal printing of arbitrary Z via repeated division is overkill here: print the binary structure *)
  match z with
  | M.Z0 -> "0"
  | M.Zpos p -> "+" ^ pos_bits p
  | M.Zneg p -> "-" ^ pos_bits p
and pos_bits = function M.XH -> "1" | M.XO p -> pos_bits p ^ "0" | M.XI p -> pos_bits p ^ "1"

let q_to_string (x : M.q) : string = let r = M.qred x in z_to_string r.M.qnum ^ "/" ^ pos_bits r.M.qden

let cmp_str (a : M.str) (b : M.str) : int =
  match M.str_cmp a b with M.Eq -> 0 | M.Lt -> -1 | M.Gt -> 1

(* object members sorted by name, except inside the value of a "properties" member *)
let rec jdoc_to_string_p (keep : bool) (d : M.jdoc) : string =
  match d with
  | M.DNull -> "null"
  | M.DBool true -> "t"
  | M.DBool false -> "f"
  | M.DNum (_, x) -> "n" ^ q_to_string x
  | M.DStr s -> "s[" ^ ints_of_str s ^ "]"
  | M.DArr l -> "a(" ^ String.concat "," (List.map (jdoc_to_string_p false) l) ^ ")"
  | M.DObj m ->
      let m = if keep then m else List.stable_sort (fun (a, _) (b, _) -> cmp_str a b) m in
      "o(" ^ String.concat "," (List.map (fun (k, v) -> "[" ^ ints_of_str k ^ "]:" ^ jdoc_to_string_p (k = str_of_string "properties") v) m) ^ ")"
let jdoc_to_string (d : M.jdoc) : string = jdoc_to_string_p false d

(* canonical printing of JSON values (members sorted) *)
let rec json_to_string (j : M.json) : string =
  match j with
  | M.JNull -> "null"
  | M.JBool true -> "t"
  | M.JBool false -> "f"
  | M.JNum x -> "n" ^ q_to_string x
  | M.JStr s -> "s[" ^ ints_of_str s ^ "]"
  | M.JArr l -> "a(" ^ String.concat "," (List.map json_to_string l) ^ ")"
  | M.JObj m ->
      let m = List.stable_sort (fun (a, _) (b, _) -> cmp_str a b) m in
      "o(" ^ String.concat "," (List.map (fun (k, v) -> "[" ^ ints_of_str k ^ "]:" ^ json_to_string v) m) ^ ")"
