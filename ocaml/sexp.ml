(* minimal S-expression reader: atoms are runs of non-space, non-paren characters *)
type t = A of string | L of t list

let parse (s : string) : t =
  let n = String.length s in
  let pos = ref 0 in
  let rec skip () = while !pos < n && (s.[!pos] = ' ' || s.[!pos] = '\n' || s.[!pos] = '\t') do incr pos done
  and value () =
    skip ();
    if !pos >= n then failwith "sexp: eof"
    else if s.[!pos] = '(' then begin
      incr pos;
      let items = ref [] in
      let rec loop () =
        skip ();
        if !pos >= n then failwith "sexp: unclosed"
        else if s.[!pos] = ')' then incr pos
        else begin items := value () :: !items; loop () end in
      loop ();
      L (List.rev !items)
    end else begin
      let st = !pos in
      while !pos < n && s.[!pos] <> ' ' && s.[!pos] <> '(' && s.[!pos] <> ')' && s.[!pos] <> '\n' do incr pos done;
      A (String.sub s st (!pos - st))
    end in
  value ()

let atom = function A a -> a | L _ -> failwith "sexp: atom expected"
let list = function L l -> l | A a -> failwith ("sexp: list expected, got " ^ a)
let tagged x = match x with L (A t :: r) -> (t, r) | _ -> failwith "sexp: tagged list expected"
