#!/bin/sh
# builds modelrun from the extracted model (coq/model.ml) and the hand-written driver
set -e
cd "$(dirname "$0")"
cp ../coq/model.ml ../coq/model.mli .
ocamlfind ocamlopt -O2 -w -a -package str model.mli model.ml sexp.ml conv.ml schema_conv.ml driver_infer.ml driver.ml -o modelrun
