(* family infer (C04, C09, C16): a Go type, ForOptions, typed values, mutated documents *)
module M = Model
open Sexp
open Conv

let ikind_of = function
  | "int" -> M.KInt | "int8" -> M.KInt8 | "int16" -> M.KInt16 | "int32" -> M.KInt32 | "int64" -> M.KInt64
  | "uint" -> M.KUint | "uint8" -> M.KUint8 | "uint16" -> M.KUint16 | "uint32" -> M.KUint32 | "uint64" -> M.KUint64
  | "uintptr" -> M.KUintptr | k -> failwith ("ikind " ^ k)

let rec gtype_of_sexp (x : t) : M.gtype =
  match list x with
  | [A "bool"] -> M.TyBool
  | [A "int"; A k] -> M.TyInt (ikind_of k)
  | [A "float"; A b] -> M.TyFloat (b = "32")
  | [A "string"] -> M.TyString
  | [A "iface"] -> M.TyIface
  | [A "ptr"; t] -> M.TyPtr (gtype_of_sexp t)
  | [A "slice"; t] -> M.TySlice (gtype_of_sexp t)
  | [A "array"; A n; t] -> M.TyArray (nat_of_int (int_of_string n), gtype_of_sexp t)
  | [A "map"; A k; t] -> M.TyMap (k = "1", gtype_of_sexp t)
  | A "struct" :: fs ->
      M.TyStruct (List.map (fun f -> match list f with
        | [A "f"; name; A e; A emb; A has; tag; desc; ty] ->
            ({ M.fi_name = str_of_sexp name; fi_exported = (e = "1"); fi_embedded = (emb = "1"); fi_hastag = (has = "1");
               fi_tag = str_of_sexp tag; fi_desc = (match desc with A "none" -> None | L _ -> Some (str_of_sexp desc) | _ -> failwith "desc") },
             gtype_of_sexp ty)
        | _ -> failwith "field") fs)
  | [A "named"; n; t] -> M.TyNamed (str_of_sexp n, gtype_of_sexp t)
  | [A "rec"; n] -> M.TyRec (str_of_sexp n)
  | [A "std"; n] -> M.TyStd (str_of_sexp n)
  | [A "bad"] -> M.TyBad
  | _ -> failwith "gtype"

(* an embedded pointer to an unexported struct type cannot be allocated by the decoder (finding O-9b) *)
let rec unexp_emb_ptr (t : M.gtype) : bool =
  match t with
  | M.TyPtr e | M.TySlice e | M.TyNamed (_, e) | M.TyArray (_, e) | M.TyMap (_, e) -> unexp_emb_ptr e
  | M.TyStruct fs ->
      List.exists (fun (fi, ft) ->
        (fi.M.fi_embedded && not fi.M.fi_exported && (match M.strip_named ft with M.TyPtr _ -> true | _ -> false)) || unexp_emb_ptr ft) fs
  | _ -> false

(* marshaler types decode through their own UnmarshalJSON: outside the decoder model *)
let rec has_std (t : M.gtype) : bool =
  match t with
  | M.TyStd _ -> true
  | M.TyPtr e | M.TySlice e | M.TyNamed (_, e) | M.TyArray (_, e) | M.TyMap (_, e) -> has_std e
  | M.TyStruct fs -> List.exists (fun (_, ft) -> has_std ft) fs
  | _ -> false

exception Unsupported
(* values of recursive types and of types with unsupported kinds are outside the model's values *)
let rec expressible (t : M.gtype) : bool =
  match t with
  | M.TyRec _ | M.TyBad -> false
  | M.TyMap (k, e) -> k && expressible e
  | M.TyPtr e | M.TySlice e | M.TyNamed (_, e) -> expressible e
  | M.TyArray (_, e) -> expressible e
  | M.TyStruct fs -> List.for_all (fun (_, ft) -> expressible ft) fs
  | _ -> true
let rec tval_of_sexp (x : t) : M.tval =
  match list x with
  | [A "b"; A v] -> M.VBool (v = "1")
  | [A "i"; A z] -> M.VInt (z_of_string z)
  | [A "fl"; n; d] -> M.VFloat (q_of n d)
  | A "s" :: cs -> M.VStr (str_of_sexp (L cs))
  | [A "nil"] -> M.VNil
  | [A "ptr"; v] -> M.VPtr (tval_of_sexp v)
  | A "list" :: vs -> M.VList (List.map tval_of_sexp vs)
  | A "map" :: ms -> M.VMap (List.map (fun m -> match list m with [k; v] -> (str_of_sexp k, tval_of_sexp v) | _ -> failwith "vmap") ms)
  | [A "any"; d] -> M.VAny (M.doc_value (jdoc_of_sexp d))
  | A "struct" :: vs -> M.VStruct (List.map tval_of_sexp vs)
  | [A "stdv"; d] -> M.VStdV (M.doc_value (jdoc_of_sexp d))
  | [A "unsupported"] -> raise Unsupported
  | _ -> failwith "tval"

let res_tag = function M.Ok _ -> "ok" | M.Err -> "err" | M.Panic -> "panic" | M.OutOfFuel -> "fuel"
let fuel = nat_of_int 200

let run_infer (id : string) (fields : t list) (field1 : string -> t list -> t) (field : string -> t list -> t) : string =
  let ty = gtype_of_sexp (field1 "type" fields) in
  let (ig, tsnull, schemas) =
    match list (field "opts" fields) with
    | [A ig; A tn; L (A "schemas" :: es)] ->
        (ig = "1", tn = "1",
         List.map (fun e -> match list e with
           | [n; A "nil"] -> (str_of_sexp n, None)
           | [n; s] -> (str_of_sexp n, Some (Schema_conv.schema_of_sexp s))
           | _ -> failwith "schemas entry") es)
    | _ -> failwith "opts" in
  let o = { M.o_ignore = ig; o_tsnull = tsnull; o_schemas = schemas } in
  match M.forType o ty with
  | M.Ok None -> id ^ " for=nil"
  | M.Ok (Some s) ->
      (match M.marshal s with
       | M.Ok d ->
           let doc = jdoc_to_string d in
           (try
             if not (expressible ty) then raise Unsupported;
             let vals = List.map tval_of_sexp (list (field "vals" fields)) in
             (match M.resolve (fun _ -> true) fuel s [] None with
              | M.Ok (env, _) ->
                  let verdict j =
                    match M.validate0 (fun _ _ -> false) (fun _ -> z_of_int 0) fuel env (M.canon j) with
                    | M.Ok _ -> "V" | M.Err -> "I" | M.Panic -> "P" | M.OutOfFuel -> "F" in
                  let encs = List.map (fun v -> M.encode false fuel ty v) vals in
                  let enc_s = String.concat "|" (List.map (function Some j -> json_to_string j | None -> "model-none") encs) in
                  let vs = String.concat "" (List.map (function Some j -> verdict j | None -> "?") encs) in
                  let muts = List.map (fun d -> M.doc_value (jdoc_of_sexp d)) (list (field "muts" fields)) in
                  let mv = String.concat "" (List.map verdict muts) in
                  (* inside the domain of the C09 theorem the verdict is [conforms], computed from the type alone *)
                  let in_dom = (not ig) && List.for_all (fun (_, e) -> e = Some M.str_schema) schemas && M.dom o ty in
                  let cf = if in_dom then " spec_mv=" ^ String.concat "" (List.map (fun j -> if M.conforms o (nat_of_int 64) ty j then "V" else "I") muts) else "" in
                  let ce = if in_dom && List.for_all (fun x -> x <> None) encs then " spec_v=" ^ String.concat "" (List.map (function Some j -> if M.conforms o (nat_of_int 64) ty j then "V" else "I" | None -> "?") encs) else "" in
                  (* the decoder model (inf/Decode.v) against the real decoder, on every mutated document *)
                  let dec_dom = in_dom && not (has_std ty) && not (unexp_emb_ptr ty) && List.for_all (fun j -> M.json_wf j && M.in_i64 j) muts in
                  let cd = if dec_dom then " spec_impl_decall=" ^ String.concat "" (List.map (fun j -> if M.decodes (nat_of_int 64) ty j then "D" else "E") muts) else "" in
                  Printf.sprintf "%s for=ok doc=%s res=ok enc=%s v=%s mv=%s%s%s%s" id doc enc_s vs mv cf ce cd
              | r -> Printf.sprintf "%s for=ok doc=%s res=%s" id doc (res_tag r))
           with Unsupported -> Printf.sprintf "%s for=ok doc=%s model_partial=1" id doc)
       | r -> id ^ " for=ok doc=marshal-" ^ res_tag r)
  | r -> id ^ " for=" ^ res_tag r
