(* modelrun FAMILY CASEFILE: evaluates the extracted Coq model on each case line and
   prints one observation line per case, in the same grammar as the Go harness. *)
module M = Model
open Sexp
open Conv

let fuel_big = nat_of_int 200

(* regex oracle tables shipped with the case *)
type rx = { ok : (M.str * bool) list; mt : ((M.str * M.str) * bool) list; mutable miss : int }
let rx_of_sexp (x : t) : rx =
  match list x with
  | [A "rx"; L (A "ok" :: oks); L (A "match" :: ms)] ->
      { ok = List.map (fun e -> match list e with [p; A b] -> (str_of_sexp p, b = "1") | _ -> failwith "rx ok") oks;
        mt = List.map (fun e -> match list e with [p; s; A b] -> ((str_of_sexp p, str_of_sexp s), b = "1") | _ -> failwith "rx m") ms;
        miss = 0 }
  | _ -> failwith "rx"
let re_ok rx p = match List.assoc_opt p rx.ok with Some b -> b | None -> rx.miss <- rx.miss + 1; false
let re_match rx p s = match List.assoc_opt (p, s) rx.mt with Some b -> b | None -> rx.miss <- rx.miss + 1; false

(* an arbitrary bucket function for uniqueItems: the verdict is independent of it (theorem C12_unique) *)
let hashfun (seed : int) (toks : M.tok list) : M.z =
  z_of_int (List.fold_left (fun a t -> (a * 31 + (match t with M.TU64 _ -> 1 | M.TMag _ -> 2 | M.TByte _ -> 3 | M.TStrTok s -> 4 + List.length s) + seed) land 0xffff) seed toks land 7)

let res_tag = function M.Ok _ -> "ok" | M.Err -> "err" | M.Panic -> "panic" | M.OutOfFuel -> "fuel"

let loader_of_sexp (x : t) : (M.str * M.schema option) list option =
  match x with
  | A "none" -> None
  | L (A "loader" :: entries) ->
      Some (List.map (fun e -> match list e with
        | [u; A "err"] -> (str_of_sexp u, None)
        | [u; d] -> (str_of_sexp u, (match M.unmarshal (jdoc_of_sexp d) with M.Ok s -> Some s | _ -> None))
        | _ -> failwith "loader entry") entries)
  | _ -> failwith "loader"

let field (name : string) (fields : t list) : t =
  let rec go = function
    | [] -> failwith ("missing field " ^ name)
    | L (A n :: rest) :: _ when n = name -> L rest
    | _ :: r -> go r in
  go fields

(* family val: document -> Unmarshal -> Resolve -> Validate each instance *)
let field1 name fields = match field name fields with L [v] -> v | _ -> failwith ("field1 " ^ name)

let run_val (id : string) (fields : t list) : string =
  let doc = jdoc_of_sexp (field1 "doc" fields) in
  let base = str_of_sexp (field1 "base" fields) in
  let rx = rx_of_sexp (L (A "rx" :: list (field "rx" fields))) in
  let insts = List.map gv_of_sexp (list (field "insts" fields)) in
  let seed = int_of_string (atom (field1 "hseed" fields)) in
  match M.unmarshal doc with
  | M.Ok s ->
      let loader = loader_of_sexp (field1 "loader" fields) in
      (match M.resolve (re_ok rx) fuel_big s base loader with
       | M.Ok (env, calls) ->
           let vs = List.map (fun i ->
             match M.validate0 (re_match rx) (hashfun seed) fuel_big env i with
             | M.Ok _ -> "V" | M.Err -> "I" | M.Panic -> "P" | M.OutOfFuel -> "F") insts in
           let supported = M.isValidSchemaVersion env.M.e_version in
           let sp = List.map (fun i ->
             if not supported then "I" (* an unsupported $schema is refused for every instance *) else
             match M.spec_valid (re_match rx) fuel_big env (M.den i) with
             | Some true -> "V" | Some false -> "I" | None -> "F") insts in
           (* informational: does the Resolved satisfy the rank condition of val/Terminates.v (no chain of in-place calls closes)? *)
           (* (quick tier only: the thorough tier runs 40 times as many cases) *)
           let rank = if Sys.getenv_opt "VERIF_RANK" <> Some "1" || List.length env.M.e_nodes > 80 then "skipped"
                      else if M.rank_auto env then "1" else "0" in
           Printf.sprintf "%s unm=ok res=ok calls=%s v=%s spec_v=%s%s model_rank=%s" id
             (String.concat "," (List.sort compare (List.map ints_of_str calls))) (String.concat "" vs) (String.concat "" sp)
             (if rx.miss > 0 then Printf.sprintf " rxmiss=%d" rx.miss else "") rank
       | r -> Printf.sprintf "%s unm=ok res=%s" id (res_tag r))
  | r -> Printf.sprintf "%s unm=%s" id (res_tag r)

(* family marshal: a Schema value -> MarshalJSON, and the order formula of the property
   (specification side) for every subschema that has properties, keyed by location *)
let compare_str (a : M.str) (b : M.str) : int =
  match M.str_cmp a b with M.Eq -> 0 | M.Lt -> -1 | M.Gt -> 1

let path_to_string (p : M.seg list) : string =
  String.concat "" (List.map (function M.SKey k -> "/" ^ ints_of_str k | M.SIdx i -> "/#" ^ string_of_int (int_of_nat i)) p)

let formula_keys (s : M.schema) : string option =
  match s.M.s_properties with
  | None -> None
  | Some props ->
      let names = List.map fst props in
      let order = match s.M.s_propertyOrder with Some o -> o | None -> [] in
      let listed = List.filter (fun n -> List.mem n names) order in
      let rest = List.sort compare_str (List.filter (fun n -> not (List.mem n listed)) names) in
      Some (String.concat "|" (List.map ints_of_str (listed @ rest)))

let spec_orders (s : M.schema) : string =
  let entries = List.filter_map (fun (p, c) ->
    match formula_keys c with Some ks -> Some (path_to_string p ^ "=" ^ ks) | None -> None) (M.all_sub s) in
  String.concat ";" (List.sort compare entries)

let run_marshal (id : string) (fields : t list) : string =
  let s = Schema_conv.schema_of_sexp (field1 "schema" fields) in
  match M.marshal s with
  | M.Ok d -> Printf.sprintf "%s out=ok doc=%s spec_order=%s" id (jdoc_to_string d) (spec_orders s)
  | r -> Printf.sprintf "%s out=%s" id (res_tag r)

(* family equal: pairs of Go values -> equalValue (model), JSON equality of the denotations
   (specification), and whether the two hash streams coincide (then the hashes must) *)
let run_equal (id : string) (fields : t list) : string =
  let pairs = List.map (fun p -> match list p with [a; b] -> (gv_of_sexp a, gv_of_sexp b) | _ -> failwith "pair") (list (field "pairs" fields)) in
  let tf b = if b then "T" else "F" in
  let eq = String.concat "" (List.map (fun (a, b) -> tf (M.equalValue a b)) pairs) in
  let sp = String.concat "" (List.map (fun (a, b) -> tf (M.json_eqb (M.den a) (M.den b))) pairs) in
  let all_streams_eq = List.for_all (fun (a, b) -> (not (M.equalValue a b)) || M.hash_stream a = M.hash_stream b) pairs in
  (* hash law on the implementation: only required where the model's streams coincide *)
  let need = String.concat "" (List.map (fun (a, b) -> if M.hash_stream a = M.hash_stream b then "T" else "?") pairs) in
  Printf.sprintf "%s eq=%s spec_eq=%s model_law=%s model_hashneed=%s" id eq sp (tf all_streams_eq) need

(* family uri: Parse / ResolveReference / String / Fragment / IsAbs *)
let run_uri (id : string) (fields : t list) : string =
  let base = str_of_sexp (field1 "base" fields) and r = str_of_sexp (field1 "ref" fields) in
  let pb = match base with [] -> M.POk M.empty_uri | _ -> M.parse_uri base in
  match pb with
  | M.PErr -> id ^ " pb=err"
  | M.PUnsupported -> id ^ " pb=unsupported"
  | M.POk b ->
      (match M.parse_uri r with
       | M.PErr -> id ^ " pb=ok pr=err"
       | M.PUnsupported -> id ^ " pb=ok pr=unsupported"
       | M.POk ru ->
           let u = M.resolve_reference b ru in
           Printf.sprintf "%s pb=ok pr=ok str=%s frag=%s abs=%d" id (ints_of_str (M.uri_string (M.drop_frag u)))
             (ints_of_str u.M.u_frag) (if M.is_abs u then 1 else 0))

(* family roundtrip: Schema value -> Marshal -> Unmarshal -> Marshal (C05) *)
let run_roundtrip (id : string) (fields : t list) : string =
  let s = Schema_conv.schema_of_sexp (field1 "schema" fields) in
  match M.marshal s with
  | M.Ok d ->
      (match M.unmarshal d with
       | M.Ok s2 ->
           let again = match M.marshal s2 with M.Ok d2 -> jdoc_to_string d2 = jdoc_to_string d | _ -> false in
           Printf.sprintf "%s out=ok doc=%s unm=ok model_again=%d" id (jdoc_to_string d) (if again then 1 else 0)
       | r -> Printf.sprintf "%s out=ok doc=%s unm=%s" id (jdoc_to_string d) (res_tag r))
  | r -> Printf.sprintf "%s out=%s" id (res_tag r)

(* family docrt: document -> Unmarshal -> Marshal *)
let run_docrt (id : string) (fields : t list) : string =
  match M.unmarshal (jdoc_of_sexp (field1 "doc" fields)) with
  | M.Ok s ->
      (match M.marshal s with
       | M.Ok d -> Printf.sprintf "%s unm=ok out=ok doc=%s" id (jdoc_to_string d)
       | r -> Printf.sprintf "%s unm=ok out=%s" id (res_tag r))
  | r -> Printf.sprintf "%s unm=%s" id (res_tag r)

(* family decor: a document and its decorated version, same instances (C18) *)
let run_decor (id : string) (fields : t list) : string =
  let rx = rx_of_sexp (L (A "rx" :: list (field "rx" fields))) in
  let insts = List.map gv_of_sexp (list (field "insts" fields)) in
  let one name =
    match M.unmarshal (jdoc_of_sexp (field1 name fields)) with
    | M.Ok s ->
        (match M.resolve (re_ok rx) fuel_big s [] None with
         | M.Ok (env, _) ->
             ("ok", "ok", String.concat "" (List.map (fun i ->
               match M.validate0 (re_match rx) (hashfun 0) fuel_big env i with
               | M.Ok _ -> "V" | M.Err -> "I" | M.Panic -> "P" | M.OutOfFuel -> "F") insts))
         | r -> ("ok", res_tag r, ""))
    | r -> (res_tag r, "", "") in
  let (u1, r1, v1) = one "doc" and (u2, r2, v2) = one "doc2" in
  Printf.sprintf "%s unm=%s res=%s v=%s unm2=%s res2=%s v2=%s" id u1 r1 v1 u2 r2 v2

(* family defaults: Resolve (ValidateDefaults on/off) then ApplyDefaults on each instance *)
let run_defaults (id : string) (fields : t list) : string =
  let rx = rx_of_sexp (L (A "rx" :: list (field "rx" fields))) in
  let insts = List.map gv_of_sexp (list (field "insts" fields)) in
  let vd = atom (field1 "vd" fields) = "1" in
  match M.unmarshal (jdoc_of_sexp (field1 "doc" fields)) with
  | M.Ok s ->
      (match M.resolve (re_ok rx) fuel_big s [] None with
       | M.Ok (env, _) ->
           let vdres = if vd then M.validateDefaults (re_match rx) (hashfun 0) fuel_big env s else M.Ok () in
           (match vdres with
            | M.Ok _ ->
                let outs = List.map (fun i -> json_to_string (M.applyDefaults s (M.den i))) insts in
                Printf.sprintf "%s unm=ok res=ok out=%s" id (String.concat ";" outs)
            | r -> Printf.sprintf "%s unm=ok res=%s" id (res_tag r))
       | r -> Printf.sprintf "%s unm=ok res=%s" id (res_tag r))
  | r -> Printf.sprintf "%s unm=%s" id (res_tag r)

let () =
  let family = Sys.argv.(1) in
  let ic = open_in Sys.argv.(2) in
  (try
    while true do
      let line = input_line ic in
      if String.length line > 0 then begin
        let out =
          try
            match list (parse line) with
            | A "case" :: A id :: fields ->
                (match family with
                 | "val" -> run_val id fields
                 | "marshal" -> run_marshal id fields
                 | "equal" -> run_equal id fields
                 | "uri" -> run_uri id fields
                 | "roundtrip" -> run_roundtrip id fields
                 | "docrt" -> run_docrt id fields
                 | "decor" -> run_decor id fields
                 | "defaults" -> run_defaults id fields
                 | "infer" -> Driver_infer.run_infer id fields field1 field
                 | f -> failwith ("unknown family " ^ f))
            | _ -> failwith "case expected"
          with Failure m -> "DRIVER-ERROR " ^ m
             | Stack_overflow -> "DRIVER-ERROR stack overflow" in
        print_endline out
      end
    done
  with End_of_file -> ());
  close_in ic
